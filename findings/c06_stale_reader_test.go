// Demonstration of known finding C06-stale-reader against the real code and
// the real net/http transport (no scheduler, no fakes).
//
// Run with:
//   cd /repo && GOFLAGS=-mod=mod go test -vet=off -count=1 -run TestC06StaleReader \
//     -overlay <(echo '{"Replace":{"/repo/agent/utils/zz_c06_stale_reader_test.go":"/verif/findings/c06_stale_reader_test.go"}}') ./agent/utils/
//
// The proxy answers the first upload attempt with 503 before reading the
// request body. The transport's write loop of that attempt is then still
// blocked in Read on the shared bufferedReadSeeker when the retry starts
// reading from the same object; the next bytes the serialiser produces go to
// whichever of the two readers wins, so the attempt that the proxy finally
// acknowledges with 200 can miss (or duplicate) a piece of the response.
package utils

import (
	"bufio"
	"bytes"
	"io"
	"net"
	"net/http"
	"strings"
	"sync"
	"testing"
	"time"
)

// rawProxy is a minimal HTTP/1.1 endpoint that, unlike net/http's server, does
// not drain the request body before it answers: the first connection is
// answered 503 as soon as the request header has arrived (what a load balancer
// in front of an unavailable proxy does), later ones read the whole chunked
// body and answer 200.
func rawProxy(t *testing.T) (addr string, acked func() []byte, attempts func() int, stop func()) {
	l, err := net.Listen("tcp", "127.0.0.1:0")
	if err != nil {
		t.Fatal(err)
	}
	var mu sync.Mutex
	n := 0
	var body []byte
	go func() {
		for {
			c, err := l.Accept()
			if err != nil {
				return
			}
			mu.Lock()
			n++
			k := n
			mu.Unlock()
			go func(c net.Conn) {
				defer c.Close()
				br := bufio.NewReader(c)
				req, err := http.ReadRequest(br)
				if err != nil {
					return
				}
				if k == 1 {
					io.WriteString(c, "HTTP/1.1 503 Service Unavailable\r\nContent-Length: 0\r\n\r\n")
					// keep the connection open for a while: the client decides what happens to it
					time.Sleep(300 * time.Millisecond)
					return
				}
				b, _ := io.ReadAll(req.Body)
				mu.Lock()
				body = b
				mu.Unlock()
				io.WriteString(c, "HTTP/1.1 200 OK\r\nContent-Length: 0\r\n\r\n")
			}(c)
		}
	}()
	return l.Addr().String(), func() []byte { mu.Lock(); defer mu.Unlock(); return body }, func() int { mu.Lock(); defer mu.Unlock(); return n }, func() { l.Close() }
}

func TestC06StaleReader(t *testing.T) {
	corrupt, acked := 0, 0
	var example string
	for round := 0; round < 20; round++ {
		addr, ackedBody, attempts, stop := rawProxy(t)
		req, _ := http.ReadRequest(bufio.NewReader(strings.NewReader("GET / HTTP/1.1\r\nHost: h\r\n\r\n")))
		rw, err := NewResponseForwarder(&http.Client{Transport: &http.Transport{}}, "http://"+addr+"/", "b", "id", req, nil)
		if err != nil {
			t.Fatal(err)
		}
		// the backend is still silent while the first attempt is rejected and the retry starts
		time.Sleep(100 * time.Millisecond)
		rw.Header().Set("X-A", "1")
		rw.WriteHeader(200)
		rw.Write([]byte("hello "))
		rw.Write([]byte("world"))
		rw.Close()
		got := ackedBody()
		if round < 2 {
			t.Logf("round %d: attempts=%d acknowledged upload=%q", round, attempts(), got)
		}
		stop()
		if got == nil {
			continue
		}
		acked++
		resp, err := http.ReadResponse(bufio.NewReader(bytes.NewReader(got)), nil)
		ok := err == nil
		if ok {
			body, _ := io.ReadAll(resp.Body)
			ok = string(body) == "hello world" && resp.StatusCode == 200 && resp.Header.Get("X-A") == "1"
		}
		if !ok {
			corrupt++
			if example == "" {
				example = string(got)
			}
		}
	}
	t.Logf("acknowledged uploads: %d, corrupted: %d", acked, corrupt)
	if corrupt > 0 {
		t.Fatalf("an upload acknowledged with 200 did not carry the serialised response; e.g. %q", example)
	}
}
