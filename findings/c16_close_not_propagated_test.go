// Demonstration of known finding C16-close-not-propagated against the real
// code with real sockets and the real gorilla/websocket library.
//
// Run with:
//   cd /repo && GOFLAGS=-mod=mod go test -vet=off -count=1 -run TestC16CloseNotPropagated \
//     -overlay <(echo '{"Replace":{"/repo/utils/tcpbridge/connection/zz_c16_test.go":"/verif/findings/c16_close_not_propagated_test.go"}}') ./utils/tcpbridge/connection/
//
// The TCP server accepts the bridged connection, writes a greeting and closes.
// The websocket (frontend) side receives the greeting but never learns about
// the close: Handler waits for BOTH copy loops before any deferred Close runs,
// and the loop reading from the websocket only ends when the frontend closes.
package connection

import (
	"net"
	"net/http/httptest"
	"net/url"
	"strings"
	"testing"
	"time"

	"context"
	"net/http"
)

func TestC16CloseNotPropagated(t *testing.T) {
	l, err := net.Listen("tcp", "127.0.0.1:0")
	if err != nil {
		t.Fatal(err)
	}
	defer l.Close()
	go func() {
		c, err := l.Accept()
		if err != nil {
			return
		}
		c.Write([]byte("hello"))
		c.Close()
	}()
	port := l.Addr().(*net.TCPAddr).Port
	srv := httptest.NewServer(Handler(port, http.NotFoundHandler()))
	defer srv.Close()
	u, _ := url.Parse(strings.Replace(srv.URL, "http://", "ws://", 1) + StreamingPath)
	conn, err := DialWebsocket(context.Background(), u, nil)
	if err != nil {
		t.Fatal(err)
	}
	defer conn.Close()
	buf := make([]byte, 16)
	n, err := conn.Read(buf)
	if err != nil || string(buf[:n]) != "hello" {
		t.Fatalf("greeting: %q %v", buf[:n], err)
	}
	done := make(chan error, 1)
	go func() { _, err := conn.Read(buf); done <- err }()
	select {
	case <-done:
		// end-of-stream (or an error) was propagated
	case <-time.After(5 * time.Second):
		t.Fatal("the TCP server closed 5s ago but the bridged peer has not observed end-of-stream")
	}
}
