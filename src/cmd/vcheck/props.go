package main

var props = map[string]propSpec{
	"C01": {Level: "model_checking", Harnesses: []harnessSpec{
		{Name: "c01", Quick: 300, Thorough: 900},
		{Name: "agentw", Quick: 300, Thorough: 900, Args: []string{"-prop", "C01"}},
		{Name: "joined", Quick: 300, Thorough: 900, Args: []string{"-prop", "C01"}},
	}, Assume: []string{
		"whole system (harness joined): server main() and agent main() in one explored process, the agent's client reaching the proxy handler through a loop-back transport; K<=3 clients, delay bound 1-3 (thorough 2-4)",
		"agent side (harness agentw): the agent program between a scripted proxy and a scripted backend with 2-3 requests in flight; delay-bounded schedules (bound 2, thorough 3)",
		"sequentially consistent interleavings at synchronisation operations; unsynchronised access only to declared non-thread-safe objects (lru.Cache, rand.Rand) is detected by the vector-clock race detector",
		"K<=2 (quick) / K<=3 (thorough) concurrent clients, P<=2 pollers; preemption bound as reported per scenario",
		"the agent side of the wire protocol is played by harness threads that follow utils.go's request/response format",
	}},
	"C05": {Level: "model_checking", Harnesses: []harnessSpec{
		{Name: "fwd", Quick: 300, Thorough: 600, Args: []string{"-prop", "C05"}},
		{Name: "agentw", Quick: 300, Thorough: 600, Args: []string{"-prop", "C05"}},
		{Name: "bboxagent", NoRewrite: true, Quick: 300, Thorough: 600, Args: []string{"-prop", "C05"}},
	}, Assume: []string{
		"whole agent (harness agentw): the same lock-step through main() with a scripted backend whose response body produces chunk i only after the scripted proxy has seen chunk i-1 in the upload: plain, websocket-shim script injection, sessions, banner and all of them together x HTML / JSON / event-stream x chunk patterns with and without <head>, around the 1 KiB peek of the injection; httputil.ReverseProxy's periodic flush is real-time and plays no part (its writes reach the forwarder at once)",
		"'within bounded time' is decided as logical progress: the backend-side handler continues only after the proxy endpoint has read every payload byte flushed so far; any stage that holds bytes back deadlocks under every schedule",
	}},
	"C06": {Level: "fault_enumeration", Harnesses: []harnessSpec{
		{Name: "fwd", Quick: 400, Thorough: 1800, Args: []string{"-prop", "C06"}},
		{Name: "bboxagent", NoRewrite: true, Quick: 300, Thorough: 900, Args: []string{"-prop", "C06"}},
		{Name: "agentw", Quick: 300, Thorough: 600, Args: []string{"-prop", "C01", "-report", "C06", "-scn", "c01/history"}},
	}, Assume: []string{
		"the proxy endpoint is a scripted http.RoundTripper; 'lingering' models net/http's documented freedom to keep reading the request body after RoundTrip returns (one more Read, as the transport's write loop does)",
		"fault plans: up to 3 attempts, kinds {5xx, connection error}, read positions {0,1,17,4095,4096,4097,all}",
	}},
	"C03": {Level: "model_checking", Harnesses: []harnessSpec{
		{Name: "fwd", Quick: 300, Thorough: 600, Args: []string{"-prop", "C03"}},
		{Name: "bbox", NoRewrite: true, Quick: 300, Thorough: 1800, Args: []string{"-prop", "C03"}},
		{Name: "fwd", Quick: 300, Thorough: 900, Args: []string{"-prop", "C06", "-report", "C03", "-scn", "c06/plain"}},
		{Name: "c01", Quick: 300, Thorough: 900, Args: []string{"-prop", "C03"}},
		{Name: "joined", Quick: 300, Thorough: 900, Args: []string{"-prop", "C03"}},
	}, Assume: []string{
		"the proxy's half of the response path (harnesses c01 and joined): concurrent clients whose responses carry a token in status, headers, body, a declared and an undeclared trailer, uploads overlapping in every order up to the bound",
		"retried uploads (harness fwd, fault plans without lingering readers): what an acknowledged attempt carried is what the client receives, so it must be the unaltered response too",
		"input axis (harness bbox): the real proxy and agent binaries built from the current tree, driven over loopback by a raw TCP client and a scripted raw TCP backend; framing fields (Content-Length, Transfer-Encoding) and the reason phrase are outside the comparison; entity headers may be missing on HEAD/204/304; h2c backends are not covered",
		"handler scripts follow httputil.ReverseProxy's use of http.ResponseWriter; zero-length writes are excluded because ReverseProxy's copy loop never issues them",
		"sequentially consistent interleavings at synchronisation operations",
	}},
	"C04": {Level: "model_checking", Harnesses: []harnessSpec{
		{Name: "agentw", Quick: 300, Thorough: 1200, Args: []string{"-prop", "C04"}},
		{Name: "c01", Quick: 300, Thorough: 900, Args: []string{"-prop", "C04"}},
		{Name: "joined", Quick: 300, Thorough: 900, Args: []string{"-prop", "C04"}},
	}, Assume: []string{
		"agent side: the agent program (main()) against a scripted proxy; all pending-list histories up to depth 2 (quick) / 3 (thorough) over {[],[a],[b],[a,b],[b,a],[a,a],[a,b,c],error}, fetch outcomes {ok,404,503x3,503 then ok,transport error}, dedup window histories with 999/1000 filler ids; schedules: delay-bounded (every departure from the default scheduler costs one), bound 2 / 3",
		"proxy side: harness c01 (all interleavings up to the preemption bound) checks that no request id is reported in two pending-list replies",
	}},
	"C07": {Level: "fault_enumeration", Harnesses: []harnessSpec{
		{Name: "agentw", Quick: 300, Thorough: 1200, Args: []string{"-prop", "C07"}},
		{Name: "shim", Quick: 300, Thorough: 2400, Args: []string{"-prop", "C07"}},
	}, Assume: []string{
		"one fault per run out of 17 kinds (pending list, fetch, backend connect/headers/body, upload) at three positions within a stream of healthy requests plus a probe request afterwards; schedules delay-bounded (bound 1)",
		"malformed websocket-shim input and shim call orders: the shim harness (all call sequences of depth 4/5 with malformed, unknown and closed arguments, and concurrent call pairs) reported under this property as well",
	}},
	"C08": {Level: "model_checking", Harnesses: []harnessSpec{
		{Name: "agentw", Quick: 300, Thorough: 300, Args: []string{"-prop", "C08"}},
		{Name: "backoff", NoRewrite: false, Quick: 300, Thorough: 300},
	}, Assume: []string{
		"loop: every fail/succeed pattern of list calls up to length 6 (quick) / 9 (thorough) plus long runs through the cap, with the jitter source pinned to {0, 0.5, 1-2^-53}, on the virtual clock; the delay after the j-th consecutive failure must be within +-10% of min(2^(j-1) ms, 3 s) and > 0",
		"function: ExponentialBackoffDuration over 0..65536, every 2^k-1, 2^k, 2^k+1 (k<=64) and the named values, with the same three jitter answers; the full 2^64 range is covered by representatives at every power-of-two boundary, not enumerated",
	}},
	"C09": {Level: "exploration", Harnesses: []harnessSpec{
		{Name: "agentw", Quick: 300, Thorough: 600, Args: []string{"-prop", "C09"}},
	}, Assume: []string{
		"requests are pushed through the agent program's real handler chain (flags parsed by main()); the websocket dial and the backend round trip are recorded by in-memory fakes of gorilla/websocket and of the reverse proxy's transport",
	}},
	"C20": {Level: "model_checking", Harnesses: []harnessSpec{
		{Name: "agentw", Quick: 300, Thorough: 900, Args: []string{"-prop", "C20"}},
	}, Assume: []string{
		"virtual clock: time passes only when no thread can run; 'promptly' and 'when the period ends' are decided in virtual time",
		"health histories up to length 5 (quick) / 7 (thorough) x thresholds {0,1,2,3} x what a failing check looks like {500, connection refused, 202, 204, 404}; shutdown: both signals x grace {0,2s,5s,10s} x backend latency {0,5s}, signal delivered at every point reachable with 1 (quick) / 2 (thorough) scheduler deviations",
	}},
	"C13": {Level: "exploration", Harnesses: []harnessSpec{
		{Name: "shimurl", Quick: 300, Thorough: 900},
		{Name: "shim", Quick: 300, Thorough: 600, Args: []string{"-prop", "C13"}},
	}, Assume: []string{
		"concurrent opens (pairs and a triple of URLs naming foreign hosts, every interleaving up to the preemption bound, plain-memory access points included) and backends that answer the handshake with a 301/302/303/307/308 redirect to a foreign host, on the in-memory websocket dialler",
		"the real gorilla dialler computes the address to connect to; only its NetDialContext is replaced (records the address, refuses the connection)",
		"open-request bodies: every string of length <= 6 (quick) / 7 (thorough) over the alphabet a:/?#@[]%.1\\ plus a structured grammar of 23k URLs and a hand list (64 KiB, control bytes); backend host with and without port",
	}},
	"C11": {Level: "model_checking", Harnesses: []harnessSpec{
		{Name: "shim", Quick: 300, Thorough: 1500, Args: []string{"-prop", "C11"}},
	}, Assume: []string{
		"the backend websocket peer is the in-memory rendering of gorilla/websocket's observable contract (package vws); one data post and one poll outstanding at a time, as the injected browser shim does",
		"message alphabet: empty/ASCII/multi-byte text, JSON objects with and without resource.headers, JSON array, HTML-escaped characters, empty/short/all-256-values binary (thorough: 1 MiB text and binary); all sequences up to length 2 (quick: a third of the pairs) / 3, every batching into data posts, polls at every position, runs of 11/12/25 messages through the 10-slot queues",
	}},
	"C12": {Level: "model_checking", Harnesses: []harnessSpec{
		{Name: "shim", Quick: 300, Thorough: 2400, Args: []string{"-prop", "C12"}},
	}, Assume: []string{
		"call sequences: every sequence of depth 4 (quick) / 5 (thorough) over 16 operations {open, data/poll/close with valid, unknown, malformed arguments, backend-send, backend-close}, each run to quiescence on the virtual clock, against a reference model of the session table",
		"concurrency: 10 pairs (thorough: + 4 triples) of calls on one session from 5 prelude states, all interleavings up to the preemption bound",
	}},
	"C10": {Level: "model_checking", Harnesses: []harnessSpec{
		{Name: "sesshist", Quick: 300, Thorough: 1200},
		{Name: "sessconc", Quick: 300, Thorough: 900},
		{Name: "sesslru", Quick: 300, Thorough: 600},
		{Name: "agentw", Quick: 300, Thorough: 600, Args: []string{"-prop", "C10"}},
	}, Assume: []string{
		"whole agent (harness agentw): one session through main() with session tracking and the websocket shim: path-scoped and host-wide cookies set by the first answer, then shim open requests and plain requests on paths inside and outside the scope",
		"bounded cache: limits of 2 and 3 sessions, every request sequence of depth 7 (quick) / 8 (thorough) by four returning clients and fresh clients, against a reference least-recently-used list over the keys the handler touches (presented session or the empty key on arrival, the session's key when the header is written): a session that is among the `limit` most recently used keys must still present its cookie",
		"histories: every sequence of 3 requests over (client A/B/fresh) x 2 hosts x 2 paths x client-side cookies x 9 backend Set-Cookie replies (set, overwrite, delete by Max-Age and by Expires, path- and domain-scoped, Secure/HttpOnly, two at once) through the real session handler, against one reference cookie jar per session; session-cache limit 1000 so that no session is evicted (eviction is outside the property's premise)",
		"concurrency: 2-3 concurrent requests of the same / different / no session under all interleavings up to the preemption bound; groupcache's lru.Cache is a declared non-thread-safe object (vector-clock race detection)",
	}},
	"C14": {Level: "exploration", Harnesses: []harnessSpec{
		{Name: "inject", Quick: 300, Thorough: 600},
		{Name: "injconc", Quick: 300, Thorough: 600},
	}, Assume: []string{
		"concurrency: pairs and triples of overlapping requests (navigations, framed requests, an image, a JSON reply) through one banner / shim / banner+shim handler, every interleaving up to the preemption bound with plain-memory access points included",
		"the backend is a scripted transport behind a real httputil.ReverseProxy; the baseline for 'unchanged' is the same response relayed by a plain reverse proxy",
		"an HTML document is a response whose Content-Type media type is text/html or application/xhtml+xml (case-insensitive); whether injection must happen for a given HTML reply is not demanded, only counted",
	}},
	"C15": {Level: "model_checking", Harnesses: []harnessSpec{
		{Name: "bridge", Quick: 300, Thorough: 900, Args: []string{"-prop", "C15"}},
		{Name: "bboxbridge", NoRewrite: true, Quick: 300, Thorough: 600, Args: []string{"-prop", "C15"}},
	}, Assume: []string{
		"black box (harness bboxbridge): the real tcp-bridge-frontend and tcp-bridge-backend programs as processes over loopback, the same plans without schedule control, plus HTTP pass-through requests to the bridge backend",
		"tcp-bridge-frontend's main() and connection.Handler joined in one process; TCP is the in-memory stream fake (unbounded socket buffers), the websocket library the in-memory message fake",
		"write plans of <=3 writes per direction with sizes {0,1,2,1024,1025,32768,32769,70000}, reader buffers {1,7,4096,65536}, both directions at once, 1-2 concurrent connections; schedules delay-bounded on the small plans, default schedule on the large ones",
		"the pass-through of non-bridge HTTP requests through the real tcp-bridge-backend binary is not covered",
	}},
	"C16": {Level: "model_checking", Harnesses: []harnessSpec{
		{Name: "bridge", Quick: 300, Thorough: 900, Args: []string{"-prop", "C16"}},
		{Name: "bboxbridge", NoRewrite: true, Quick: 300, Thorough: 300, Args: []string{"-prop", "C16"}},
	}, Assume: []string{
		"'within bounded time' is decided at quiescence: no thread can run any more and the peer still has not seen end-of-stream",
		"histories of length <=3 (quick) / 4 (thorough) over {client write, server write, client close, server close, large client write}, plus an unreachable TCP server",
	}},
	"C18": {Level: "exploration", Harnesses: []harnessSpec{
		{Name: "appw", Quick: 300, Thorough: 900, Args: []string{"-prop", "C18"}},
	}, Assume: []string{
		"App Engine datastore/memcache/users are the in-memory fake (package vae: string keys, =,<,> filters, key-ordered results, 1 MB entity limit); no real service exists offline",
		"backend sets: every single backend and every ordered pair over 3 owners x 10 prefix lists x 5 last-seen ages (never, 0, 4m59s, 5m, 5m1s), plus a sample of triples; 3 users x 5 paths per set; each set is also registered in reverse order; ages are produced on the virtual clock through the real store API (agent polls)",
	}},
	"C17": {Level: "model_checking", Harnesses: []harnessSpec{
		{Name: "appw", Quick: 300, Thorough: 900, Args: []string{"-prop", "C17"}},
	}, Assume: []string{
		"App Engine services are the in-memory fake (vae); caller identity, administrator flag and module are request attributes set by the harness, as App Engine's front end would",
		"universe: two backends (one owned by user1 at /, one shared at /s), their two agents, two end users, an administrator; one client request in flight per backend; every agent call over endpoint x caller identity x named backend x request id (own, other backend's, unknown, none), alone and after each of four legitimate calls; administrator re-registering or deleting a backend between two calls of its former agent; the admin API under six identities",
	}},
	"C19": {Level: "fault_enumeration", Harnesses: []harnessSpec{
		{Name: "appw", Quick: 300, Thorough: 1500, Args: []string{"-prop", "C19"}},
	}, Assume: []string{
		"App Engine services are the in-memory fake (vae) enforcing the 1,048,572-byte entity limit, the 1 MiB memcache item limit and the 500-key multi-operation limit",
		"sizes: request and response bodies such that the stored (serialised) blob lands on every size in a window below and at 1,000,000 and 2,000,000 bytes, plus 0, 1, 4096 and 3,000,001; concurrency: two clients of one or two backends answered in every scripted order, by the wrong agent, or not at all (504 after 30 virtual seconds); faults: every single failing service call of one request/response cycle and every pair (quick: pairs at distance <= 6)",
	}},
	"C02": {Level: "exploration", Harnesses: []harnessSpec{
		{Name: "bbox", NoRewrite: true, Quick: 300, Thorough: 2400, Args: []string{"-prop", "C02"}},
		{Name: "agentw", Quick: 300, Thorough: 600, Args: []string{"-prop", "C02"}},
		{Name: "joined", Quick: 300, Thorough: 900, Args: []string{"-prop", "C02"}},
		{Name: "appw", Quick: 300, Thorough: 300, Args: []string{"-prop", "C19", "-report", "C02", "-scn", "c19/s"}},
	}, Assume: []string{
		"the App Engine variant of the proxy stores requests as blobs split into parts: its store round trips (all orders of the concurrent part writes) and request sizes around the part limits run under this property too (harness appw)",
		"although schedules are not in this property's quantifier, requests with bodies are also sent concurrently through the agent program (harness agentw) and through proxy + agent joined in one process (harness joined) under delay-bounded schedules: the backend must see each request's own method, target and body",
		"the real proxy and agent binaries built from the current tree, as processes on loopback; credentials from a fake metadata server; the backend is a strict raw-socket HTTP/1.1 server that records what it receives",
		"hop-by-hop = the fixed RFC 7230 table (Connection, Keep-Alive, Proxy-Authenticate, Proxy-Authorization, TE, Trailer, Transfer-Encoding, Upgrade); fields merely nominated by the client's Connection header are not judged; OPTIONS * is answered by net/http before any handler and is not a request through the proxy",
		"schedules are not in this property's quantifier: outcomes are schedule-independent when the property holds",
	}},
}
