package main

var props = map[string]propSpec{
	"C01": {Level: "model_checking", Harnesses: []harnessSpec{
		{Name: "c01", Quick: 60, Thorough: 900},
	}, Assume: []string{
		"sequentially consistent interleavings at synchronisation operations; unsynchronised access only to declared non-thread-safe objects (lru.Cache, rand.Rand) is detected by the vector-clock race detector",
		"K<=2 (quick) / K<=3 (thorough) concurrent clients, P<=2 pollers; preemption bound as reported per scenario",
		"the agent side of the wire protocol is played by harness threads that follow utils.go's request/response format",
	}},
}
