package main

var props = map[string]propSpec{
	"C01": {Level: "model_checking", Harnesses: []harnessSpec{
		{Name: "c01", Quick: 60, Thorough: 900},
	}, Assume: []string{
		"sequentially consistent interleavings at synchronisation operations; unsynchronised access only to declared non-thread-safe objects (lru.Cache, rand.Rand) is detected by the vector-clock race detector",
		"K<=2 (quick) / K<=3 (thorough) concurrent clients, P<=2 pollers; preemption bound as reported per scenario",
		"the agent side of the wire protocol is played by harness threads that follow utils.go's request/response format",
	}},
	"C05": {Level: "model_checking", Harnesses: []harnessSpec{
		{Name: "fwd", Quick: 60, Thorough: 600, Args: []string{"-prop", "C05"}},
	}, Assume: []string{
		"'within bounded time' is decided as logical progress: the backend-side handler continues only after the proxy endpoint has read every payload byte flushed so far; any stage that holds bytes back deadlocks under every schedule",
		"the stage in front of the forwarder (httputil.ReverseProxy's copy loop) is not part of this harness; it is covered by the agent-level harness",
	}},
	"C06": {Level: "fault_enumeration", Harnesses: []harnessSpec{
		{Name: "fwd", Quick: 90, Thorough: 1500, Args: []string{"-prop", "C06"}},
	}, Assume: []string{
		"the proxy endpoint is a scripted http.RoundTripper; 'lingering' models net/http's documented freedom to keep reading the request body after RoundTrip returns (one more Read, as the transport's write loop does)",
		"fault plans: up to 3 attempts, kinds {5xx, connection error}, read positions {0,1,17,4095,4096,4097,all}",
	}},
	"C03": {Level: "model_checking", Harnesses: []harnessSpec{
		{Name: "fwd", Quick: 60, Thorough: 600, Args: []string{"-prop", "C03"}},
	}, Assume: []string{
		"handler scripts follow httputil.ReverseProxy's use of http.ResponseWriter; zero-length writes are excluded because ReverseProxy's copy loop never issues them",
		"sequentially consistent interleavings at synchronisation operations",
	}},
}
