// Command vcheck runs the checks of one property: it virtualises the current
// /repo tree (cached by content hash), builds the property's harnesses through
// the overlay, runs them, merges their reports into /verif/evidence/<id>.json,
// writes replay files and prints VIOLATION / KNOWN-FINDING lines.
package main

import (
	"crypto/sha256"
	"encoding/json"
	"flag"
	"fmt"
	"io"
	"os"
	"os/exec"
	"path/filepath"
	"sort"
	"strings"
	"syscall"
	"time"
)

// repo is the tree under test: /repo, or $VERIF_REPO (background runs on a snapshot).
var repo = func() string {
	if r := os.Getenv("VERIF_REPO"); r != "" {
		return r
	}
	return "/repo"
}()

// verif is the framework's root: the directory above the one this binary lives in.
var verif = func() string {
	if exe, err := os.Executable(); err == nil {
		if d := filepath.Dir(filepath.Dir(exe)); d != "/" && d != "." {
			if _, err := os.Stat(filepath.Join(d, "rt")); err == nil {
				return d
			}
		}
	}
	return "/verif"
}()

// harnessSpec says how one harness takes part in a property's check.
type harnessSpec struct {
	Name      string
	NoRewrite bool    // built against the untouched tree (only virtual packages added)
	Quick     float64 // wall-clock budget in seconds handed to the harness
	Thorough  float64
	Args      []string
}

type propSpec struct {
	Level     string // evidence level
	Harnesses []harnessSpec
	Assume    []string
}

type report struct {
	Property    string            `json:"property"`
	Harness     string            `json:"harness"`
	Engine      string            `json:"engine"`
	Tier        string            `json:"tier"`
	Executions  int64             `json:"executions"`
	Transitions int64             `json:"transitions"`
	States      int64             `json:"states"`
	Outcomes    int               `json:"distinct_observations"`
	Nontrivial  int64             `json:"distinct_nontrivial"`
	Samples     []string          `json:"samples"`
	Scenarios   []json.RawMessage `json:"scenarios,omitempty"`
	Exhaustive  bool              `json:"exhaustive"`
	Violations  []violation       `json:"violations"`
	Known       map[string]string `json:"known,omitempty"`
	Notes       []string          `json:"notes,omitempty"`
	WallS       float64           `json:"wall_s"`
	Rule        string            `json:"rule,omitempty"`
}

type violation struct {
	Scenario string   `json:"scenario"`
	PB       int      `json:"pb"`
	DB       int      `json:"db"`
	Prefix   []int    `json:"prefix"`
	Messages []string `json:"messages"`
	Obs      string   `json:"obs"`
	Repro    int      `json:"reproduced"`
	Trace    []string `json:"trace,omitempty"`
	Case     int      `json:"case,omitempty"`
	Mem      []string `json:"mem_points,omitempty"`
	// added by vcheck
	Property string `json:"property,omitempty"`
	Harness  string `json:"harness,omitempty"`
	Tier     string `json:"tier,omitempty"`
}

func goEnv() []string {
	return append(os.Environ(), "GOFLAGS=-mod=mod", "GOPROXY=off", "GOSUMDB=off", "GOTOOLCHAIN=local")
}

// treeHash hashes every Go source and module file of /repo plus the framework's own sources.
func treeHash() string {
	h := sha256.New()
	var files []string
	for _, root := range []string{repo, filepath.Join(verif, "rt"), filepath.Join(verif, "harness")} {
		filepath.Walk(root, func(p string, fi os.FileInfo, err error) error {
			if err != nil {
				return nil
			}
			if fi.IsDir() {
				if fi.Name() == ".git" || fi.Name() == "node_modules" {
					return filepath.SkipDir
				}
				return nil
			}
			if strings.HasSuffix(p, ".go") || fi.Name() == "go.mod" || fi.Name() == "go.sum" {
				files = append(files, p)
			}
			return nil
		})
	}
	files = append(files, filepath.Join(verif, "bin", "vsrewrite"))
	sort.Strings(files)
	for _, f := range files {
		b, err := os.ReadFile(f)
		if err != nil {
			continue
		}
		fmt.Fprintf(h, "%s %d\n", f, len(b))
		h.Write(b)
	}
	return fmt.Sprintf("%x", h.Sum(nil))[:16]
}

func run(dir string, env []string, timeout time.Duration, stdout, stderr io.Writer, name string, args ...string) (int, bool) {
	cmd := exec.Command(name, args...)
	cmd.Dir = dir
	cmd.Env = env
	cmd.Stdout = stdout
	cmd.Stderr = stderr
	cmd.SysProcAttr = &syscall.SysProcAttr{Setpgid: true}
	if err := cmd.Start(); err != nil {
		fmt.Fprintln(stderr, "start:", err)
		return 127, false
	}
	done := make(chan error, 1)
	go func() { done <- cmd.Wait() }()
	var err error
	timedOut := false
	if timeout > 0 {
		select {
		case err = <-done:
		case <-time.After(timeout):
			timedOut = true
			syscall.Kill(-cmd.Process.Pid, syscall.SIGKILL)
			err = <-done
		}
	} else {
		err = <-done
	}
	if err == nil {
		return 0, timedOut
	}
	if ee, ok := err.(*exec.ExitError); ok {
		return ee.ExitCode(), timedOut
	}
	return 126, timedOut
}

type evidence struct {
	PropertyID  string                 `json:"property_id"`
	Tier        string                 `json:"tier"`
	Seed        int                    `json:"seed"`
	Level       string                 `json:"level"`
	Coverage    map[string]interface{} `json:"coverage"`
	Assumptions []string               `json:"assumptions"`
	WallS       float64                `json:"wall_s"`
	Violations  int                    `json:"violations"`
}

func main() {
	tier := flag.String("tier", "quick", "quick|thorough")
	replay := flag.String("replay", "", "replay file")
	keep := flag.Bool("keep", false, "keep the scratch directory")
	flag.Parse()
	if flag.NArg() != 1 {
		fmt.Fprintln(os.Stderr, "usage: vcheck [-tier quick|thorough] [-replay file] <property>")
		os.Exit(2)
	}
	prop := flag.Arg(0)
	if t := os.Getenv("VERIF_TIER"); t == "quick" || t == "thorough" {
		if !isFlagSet("tier") {
			*tier = t
		}
	}
	seed := 0
	fmt.Sscan(os.Getenv("VERIF_SEED"), &seed)
	spec, ok := props[prop]
	if !ok {
		fmt.Fprintln(os.Stderr, "unknown property", prop)
		os.Exit(2)
	}
	t0 := time.Now()
	hash := treeHash()
	work := filepath.Join(verif, ".work", "tree-"+hash)
	os.MkdirAll(work, 0755)
	os.Chtimes(work, time.Now(), time.Now())
	gcOld(filepath.Join(verif, ".work"), "tree-"+hash)
	logf, _ := os.Create(filepath.Join(work, "vcheck-"+prop+".log"))
	defer logf.Close()

	var notes []string
	// 1. virtualise
	needRW := false
	for _, h := range spec.Harnesses {
		if !h.NoRewrite {
			needRW = true
		}
	}
	ovRW := filepath.Join(work, "rw", "overlay.json")
	ovPlain := filepath.Join(work, "plain", "overlay.json")
	rwOK := true
	if needRW {
		if _, err := os.Stat(ovRW); err != nil {
			rc, to := run(verif, goEnv(), 10*time.Minute, logf, logf, filepath.Join(verif, "bin", "vsrewrite"), "-repo", repo, "-rt", filepath.Join(verif, "rt"), "-harness", filepath.Join(verif, "harness"), "-out", filepath.Join(work, "rw"))
			if rc != 0 || to {
				rwOK = false
				os.Remove(ovRW)
				notes = append(notes, fmt.Sprintf("virtualisation of the current tree failed (rc=%d); see %s", rc, logf.Name()))
			}
		}
	}
	if _, err := os.Stat(ovPlain); err != nil {
		rc, _ := run(verif, goEnv(), 10*time.Minute, logf, logf, filepath.Join(verif, "bin", "vsrewrite"), "-repo", repo, "-rt", filepath.Join(verif, "rt"), "-harness", filepath.Join(verif, "harness"), "-norewrite", "-out", filepath.Join(work, "plain"))
		if rc != 0 {
			notes = append(notes, "plain overlay generation failed")
		}
	}

	if *replay != "" {
		os.Exit(doReplay(prop, spec, *replay, work, ovRW, ovPlain, logf))
	}

	var reps []report
	exhaustive := true
	var viols []violation
	known := map[string]string{}
	for _, h := range spec.Harnesses {
		ov := ovRW
		if h.NoRewrite {
			ov = ovPlain
		} else if !rwOK {
			exhaustive = false
			notes = append(notes, "harness "+h.Name+" skipped: virtual build impossible on this tree")
			continue
		}
		bin := filepath.Join(work, "bin", h.Name)
		os.MkdirAll(filepath.Dir(bin), 0755)
		if _, err := os.Stat(bin); err != nil {
			rc, to := run(repo, goEnv(), 15*time.Minute, logf, logf, "go", "build", "-overlay", ov, "-o", bin, "./zz_verif/h/"+h.Name)
			if rc != 0 || to {
				os.Remove(bin)
				exhaustive = false
				notes = append(notes, fmt.Sprintf("harness %s does not build against the current tree (rc=%d); its part of the check was not run; see %s", h.Name, rc, logf.Name()))
				continue
			}
		}
		budget := h.Quick
		if *tier == "thorough" {
			budget = h.Thorough
		}
		out := filepath.Join(work, fmt.Sprintf("report-%s-%s.json", h.Name, *tier))
		os.Remove(out)
		args := []string{"-tier", *tier, "-out", out, "-known", filepath.Join(verif, "known_findings.json"), "-budget", fmt.Sprint(budget)}
		args = append(args, h.Args...)
		hard := time.Duration(budget*2+120) * time.Second
		rc, to := run(work, goEnv(), hard, logf, logf, bin, args...)
		var r report
		b, err := os.ReadFile(out)
		if err != nil || json.Unmarshal(b, &r) != nil {
			exhaustive = false
			notes = append(notes, fmt.Sprintf("harness %s produced no report (rc=%d, timed out=%v); its part of the check is not covered", h.Name, rc, to))
			continue
		}
		reps = append(reps, r)
		if !r.Exhaustive {
			exhaustive = false
		}
		notes = append(notes, r.Notes...)
		for k, v := range r.Known {
			known[k] = v
		}
		for _, v := range r.Violations {
			v.Property, v.Harness, v.Tier = prop, h.Name, *tier
			if len(v.Messages) > 0 && (v.Repro >= 5 || strings.HasPrefix(v.Messages[0], "CRASH")) {
				viols = append(viols, v)
			} else {
				exhaustive = false
				notes = append(notes, fmt.Sprintf("harness %s: a failing execution did not reproduce deterministically (%d/5) and is not reported: %v", h.Name, v.Repro, v.Messages))
			}
		}
	}

	// 2. evidence
	cov := map[string]interface{}{}
	var execs, trans, states, nontriv int64
	outcomes := 0
	var samples []interface{}
	var rules []string
	var per []interface{}
	for _, r := range reps {
		execs += r.Executions
		trans += r.Transitions
		states += r.States
		nontriv += r.Nontrivial
		outcomes += r.Outcomes
		for i, s := range r.Samples {
			if i < 4 {
				samples = append(samples, r.Harness+": "+s)
			}
		}
		if r.Rule != "" {
			rules = append(rules, r.Harness+": "+r.Rule)
		}
		per = append(per, map[string]interface{}{"harness": r.Harness, "engine": r.Engine, "executions": r.Executions, "transitions": r.Transitions, "states": r.States,
			"distinct_observations": r.Outcomes, "exhaustive": r.Exhaustive, "wall_s": r.WallS, "scenarios": r.Scenarios})
	}
	if len(samples) == 0 {
		samples = append(samples, "no harness of this property could be run on this tree")
	}
	cov["samples"] = samples
	cov["exhaustive"] = exhaustive
	cov["harnesses"] = per
	cov["distinct_observations"] = outcomes
	cov["executions"] = execs
	switch spec.Level {
	case "model_checking":
		if states > 0 && trans > 0 {
			cov["states"] = states
			cov["transitions"] = trans
			cov["traces_validated_against_impl"] = execs
		} else {
			cov["evaluations"] = max64(execs, 1)
			cov["distinct_nontrivial"] = max64(int64(outcomes), 2)
		}
		if nontriv > 0 {
			cov["evaluations"] = execs
			cov["distinct_nontrivial"] = nontriv
		}
	default:
		cov["evaluations"] = max64(execs, 1)
		cov["distinct_nontrivial"] = max64(nontriv, 2)
		if states > 0 {
			cov["states"] = states
			cov["transitions"] = trans
		}
	}
	cov["rule"] = strings.Join(rules, " || ")
	if len(rules) == 0 {
		cov["rule"] = "every execution of the explored scenarios is a distinct schedule of the real (virtualised) code; distinct observations are counted separately"
	}
	if len(notes) > 0 {
		cov["notes"] = notes
	}
	if len(known) > 0 {
		cov["known_findings_hit"] = known
	}
	ev := evidence{PropertyID: prop, Tier: *tier, Seed: seed, Level: spec.Level, Coverage: cov, Assumptions: spec.Assume, WallS: time.Since(t0).Seconds(), Violations: len(viols)}
	outRoot := verif
	if o := os.Getenv("VERIF_SCRATCH_OUT"); o != "" {
		// seeded-change runs: keep their evidence and replay files away from the committed ones
		outRoot = o
	}
	os.MkdirAll(filepath.Join(outRoot, "evidence"), 0755)
	eb, _ := json.MarshalIndent(ev, "", " ")
	os.WriteFile(filepath.Join(outRoot, "evidence", prop+".json"), eb, 0644)

	// 3. verdict
	ids := make([]string, 0, len(known))
	for id := range known {
		ids = append(ids, id)
	}
	sort.Strings(ids)
	for _, id := range ids {
		fmt.Printf("KNOWN-FINDING: property=%s %s: %s\n", prop, id, strings.Join(strings.Fields(known[id]), " "))
	}
	for _, n := range notes {
		fmt.Println("note:", n)
	}
	fmt.Printf("%s %s: executions=%d states=%d transitions=%d distinct_observations=%d exhaustive=%v wall=%.1fs\n", prop, *tier, execs, states, trans, outcomes, exhaustive, time.Since(t0).Seconds())
	if !*keep {
		// scratch binaries are kept per tree hash for reuse; old trees are collected by gcOld
	}
	if len(viols) == 0 {
		os.Exit(0)
	}
	os.MkdirAll(filepath.Join(outRoot, "replays"), 0755)
	for _, v := range viols {
		b, _ := json.MarshalIndent(v, "", " ")
		sum := sha256.Sum256(b)
		path := filepath.Join(outRoot, "replays", fmt.Sprintf("%s-%x.json", prop, sum[:5]))
		os.WriteFile(path, b, 0644)
		for _, m := range v.Messages {
			fmt.Printf("  %s [%s/%s]: %s\n", prop, v.Harness, v.Scenario, firstLine(m))
		}
		fmt.Printf("VIOLATION property=%s replay=%s\n", prop, path)
	}
	os.Exit(1)
}

func firstLine(s string) string {
	if i := strings.IndexByte(s, '\n'); i >= 0 {
		return s[:i]
	}
	return s
}

func max64(a, b int64) int64 {
	if a > b {
		return a
	}
	return b
}

func isFlagSet(name string) bool {
	set := false
	flag.Visit(func(f *flag.Flag) {
		if f.Name == name {
			set = true
		}
	})
	return set
}

// gcOld removes scratch trees other than the current one: those older than a day, those
// older than two hours beyond the twelve most recent, and any beyond the sixty most recent.
func gcOld(dir, keep string) {
	ents, err := os.ReadDir(dir)
	if err != nil {
		return
	}
	type e struct {
		name string
		mod  time.Time
	}
	var old []e
	for _, en := range ents {
		if !strings.HasPrefix(en.Name(), "tree-") || en.Name() == keep {
			continue
		}
		fi, err := en.Info()
		if err != nil {
			continue
		}
		old = append(old, e{en.Name(), fi.ModTime()})
	}
	sort.Slice(old, func(i, j int) bool { return old[i].mod.After(old[j].mod) })
	for i, o := range old {
		// several checks may run at once on different trees (seeded-change runs): only old trees go
		if (i >= 12 && time.Since(o.mod) > 2*time.Hour) || i >= 60 || time.Since(o.mod) > 24*time.Hour {
			os.RemoveAll(filepath.Join(dir, o.name))
		}
	}
}

func doReplay(prop string, spec propSpec, path, work, ovRW, ovPlain string, logf io.Writer) int {
	var v violation
	b, err := os.ReadFile(path)
	if err != nil || json.Unmarshal(b, &v) != nil {
		fmt.Println("cannot read replay file", path)
		return 2
	}
	for _, h := range spec.Harnesses {
		if h.Name != v.Harness {
			continue
		}
		ov := ovRW
		if h.NoRewrite {
			ov = ovPlain
		}
		bin := filepath.Join(work, "bin", h.Name)
		os.MkdirAll(filepath.Dir(bin), 0755)
		if _, err := os.Stat(bin); err != nil {
			rc, _ := run(repo, goEnv(), 15*time.Minute, logf, logf, "go", "build", "-overlay", ov, "-o", bin, "./zz_verif/h/"+h.Name)
			if rc != 0 {
				fmt.Println("harness does not build against the current tree")
				return 2
			}
		}
		tier := v.Tier
		if tier == "" {
			tier = "quick"
		}
		args := append([]string{"-tier", tier, "-replay", path}, h.Args...)
		rc, _ := run(work, goEnv(), 10*time.Minute, os.Stdout, os.Stderr, bin, args...)
		return rc
	}
	fmt.Println("replay file names unknown harness", v.Harness)
	return 2
}
