package main

// Plain-memory instrumentation: every statement that reads or writes memory
// another goroutine can reach is preceded by vs.Mem announcements (see
// rt/vs/mem.go). "Reachable by another goroutine" is decided syntactically and
// conservatively: package-level variables of this module, local variables that a
// function literal captures, and everything reached through a pointer, a slice
// element or a map.
//
// The pass runs on the original syntax tree, before the other rewrites, so that
// the type information is still exact; the expressions it copies into the
// announcements are pure access paths (identifiers, field selections,
// dereferences, constant or identifier indices) and evaluating them a second
// time has no effect.

import (
	"go/ast"
	"go/token"
	"go/types"
	"strings"
)

type memAcc struct {
	expr    ast.Expr
	write   bool
	isMap   bool
	isSlice bool // the backing array of a slice value handed to a call
	key     string
}

type memPass struct {
	rw       *fileRW
	captured map[*types.Var]bool
	mutable  map[*types.Var]bool
	gen      map[ast.Node]bool
	accs     []memAcc
	stats    struct{ sites, skipped int }
}

func (rw *fileRW) memInstrument() (sites, skipped int) {
	m := &memPass{rw: rw, captured: map[*types.Var]bool{}, mutable: map[*types.Var]bool{}, gen: map[ast.Node]bool{}}
	m.findCaptured()
	m.findMutable()
	m.normaliseElseIf()
	// collect the statement lists first: inserted statements must not be visited
	var blocks []*ast.BlockStmt
	var cases []*ast.CaseClause
	var comms []*ast.CommClause
	ast.Inspect(rw.file, func(n ast.Node) bool {
		switch x := n.(type) {
		case *ast.BlockStmt:
			blocks = append(blocks, x)
		case *ast.CaseClause:
			cases = append(cases, x)
		case *ast.CommClause:
			comms = append(comms, x)
		}
		return true
	})
	for _, b := range blocks {
		b.List = m.list(b.List)
	}
	for _, c := range cases {
		c.Body = m.list(c.Body)
	}
	for _, c := range comms {
		c.Body = m.list(c.Body)
	}
	return m.stats.sites, m.stats.skipped
}

// ---- captured variables ----

func (m *memPass) findCaptured() {
	info := m.rw.info
	var stack []ast.Node
	var walk func(n ast.Node) bool
	walk = func(n ast.Node) bool {
		switch x := n.(type) {
		case *ast.FuncLit:
			stack = append(stack, x)
			ast.Inspect(x.Body, walk)
			stack = stack[:len(stack)-1]
			return false
		case *ast.FuncDecl:
			if x.Body == nil {
				return false
			}
			stack = append(stack, x)
			ast.Inspect(x.Body, walk)
			stack = stack[:len(stack)-1]
			return false
		case *ast.Ident:
			v, ok := info.Uses[x].(*types.Var)
			if !ok || v.IsField() || v.Pkg() == nil || v.Parent() == v.Pkg().Scope() {
				return true
			}
			if len(stack) == 0 {
				return true
			}
			cur := stack[len(stack)-1]
			if _, isLit := cur.(*ast.FuncLit); !isLit {
				return true
			}
			// declared outside the innermost function literal?
			if v.Pos() < cur.Pos() || v.Pos() >= cur.End() {
				m.captured[v] = true
			}
		}
		return true
	}
	ast.Inspect(m.rw.file, walk)
}

// findMutable marks the local variables that are modified after their
// declaration: assigned (also through a field or element), incremented, their
// address taken, or used as the addressable receiver of a pointer method. A
// captured variable that is never modified needs no announcements.
func (m *memPass) findMutable() {
	info := m.rw.info
	var root func(e ast.Expr) *types.Var
	root = func(e ast.Expr) *types.Var {
		switch x := e.(type) {
		case *ast.ParenExpr:
			return root(x.X)
		case *ast.Ident:
			obj := info.Uses[x]
			if obj == nil {
				return nil
			}
			v, _ := obj.(*types.Var)
			return v
		case *ast.SelectorExpr:
			if s := info.Selections[x]; s != nil && s.Kind() == types.FieldVal && !s.Indirect() {
				return root(x.X)
			}
		case *ast.IndexExpr:
			if t := info.TypeOf(x.X); t != nil {
				if _, ok := t.Underlying().(*types.Array); ok {
					return root(x.X)
				}
			}
		}
		return nil
	}
	mark := func(e ast.Expr) {
		if v := root(e); v != nil {
			m.mutable[v] = true
		}
	}
	ast.Inspect(m.rw.file, func(n ast.Node) bool {
		switch x := n.(type) {
		case *ast.AssignStmt:
			for _, l := range x.Lhs {
				mark(l)
			}
		case *ast.IncDecStmt:
			mark(x.X)
		case *ast.RangeStmt:
			if x.Tok == token.ASSIGN {
				if x.Key != nil {
					mark(x.Key)
				}
				if x.Value != nil {
					mark(x.Value)
				}
			}
		case *ast.UnaryExpr:
			if x.Op == token.AND {
				mark(x.X)
			}
		case *ast.CallExpr:
			if sel, ok := unparen(x.Fun).(*ast.SelectorExpr); ok {
				if s := info.Selections[sel]; s != nil && s.Kind() == types.MethodVal && !isPtr(info.TypeOf(sel.X)) {
					if sig, ok := s.Obj().Type().(*types.Signature); ok && sig.Recv() != nil && isPtr(sig.Recv().Type()) {
						mark(sel.X)
					}
				}
			}
		}
		return true
	})
}

func (m *memPass) normaliseElseIf() {
	ast.Inspect(m.rw.file, func(n ast.Node) bool {
		if is, ok := n.(*ast.IfStmt); ok {
			if ei, ok := is.Else.(*ast.IfStmt); ok && ei.Init != nil {
				is.Else = &ast.BlockStmt{List: []ast.Stmt{ei}}
			}
		}
		return true
	})
}

// ---- access paths ----

func (m *memPass) typeOf(e ast.Expr) types.Type {
	t := m.rw.info.TypeOf(e)
	if t == nil {
		return nil
	}
	return t
}

func isPtr(t types.Type) bool {
	if t == nil {
		return false
	}
	_, ok := t.Underlying().(*types.Pointer)
	return ok
}

func (m *memPass) isMapExpr(e ast.Expr) bool {
	t := m.typeOf(e)
	if t == nil {
		return false
	}
	_, ok := t.Underlying().(*types.Map)
	return ok
}

func (m *memPass) inModule(p *types.Package) bool {
	if p == nil {
		return false
	}
	if p == m.rw.pkg {
		return true
	}
	return strings.HasPrefix(p.Path(), modPath)
}

// path classifies e: pure = an access path that can be evaluated twice; shared =
// the memory it denotes may be reachable by another goroutine.
func (m *memPass) path(e ast.Expr) (pure, shared bool) {
	info := m.rw.info
	switch x := e.(type) {
	case *ast.ParenExpr:
		return m.path(x.X)
	case *ast.Ident:
		if x.Name == "_" {
			return false, false
		}
		obj := info.Uses[x]
		if obj == nil {
			obj = info.Defs[x]
		}
		v, ok := obj.(*types.Var)
		if !ok || v.IsField() || v.Pkg() == nil {
			return false, false
		}
		if v.Parent() == v.Pkg().Scope() {
			return true, m.inModule(v.Pkg())
		}
		return true, m.captured[v] && m.mutable[v]
	case *ast.SelectorExpr:
		if id, ok := x.X.(*ast.Ident); ok {
			if _, isPkg := info.Uses[id].(*types.PkgName); isPkg {
				v, ok := info.Uses[x.Sel].(*types.Var)
				if ok && m.inModule(v.Pkg()) {
					return true, true
				}
				return false, false
			}
		}
		sel := info.Selections[x]
		if sel == nil || sel.Kind() != types.FieldVal {
			return false, false
		}
		p, sh := m.path(x.X)
		if !p {
			return false, false
		}
		if sel.Indirect() {
			return true, true
		}
		return true, sh
	case *ast.StarExpr:
		tv, ok := info.Types[e]
		if !ok || !tv.IsValue() {
			return false, false
		}
		p, _ := m.path(x.X)
		return p, true
	case *ast.IndexExpr:
		t := m.typeOf(x.X)
		if t == nil || !m.pureIndex(x.Index) {
			return false, false
		}
		p, sh := m.path(x.X)
		if !p {
			return false, false
		}
		switch u := t.Underlying().(type) {
		case *types.Slice:
			return true, true
		case *types.Array:
			return true, sh
		case *types.Pointer:
			if _, ok := u.Elem().Underlying().(*types.Array); ok {
				return true, true
			}
		}
		return false, false
	}
	return false, false
}

func (m *memPass) pureIndex(e ast.Expr) bool {
	switch x := e.(type) {
	case *ast.BasicLit:
		return true
	case *ast.Ident:
		if tv, ok := m.rw.info.Types[x]; ok && tv.Value != nil {
			return true
		}
		v, ok := m.rw.info.Uses[x].(*types.Var)
		return ok && !v.IsField()
	case *ast.ParenExpr:
		return m.pureIndex(x.X)
	}
	return false
}

func (m *memPass) recordSlice(e ast.Expr, write bool) {
	key := "slice:" + exprString(m.rw.fset, e)
	for i := range m.accs {
		if m.accs[i].key == key {
			if write {
				m.accs[i].write = true
			}
			return
		}
	}
	m.accs = append(m.accs, memAcc{expr: e, write: write, isSlice: true, key: key})
}

// sliceArg announces the backing array of a slice handed to a call: the callee
// reads it, and fills it when the call looks like a writer (Read*, Append*, Put*,
// Encode*, Decode*, Copy*, Fill*, Sum) or when the argument is re-sliced to length 0.
func (m *memPass) sliceArg(a ast.Expr, writer bool) {
	t := m.typeOf(a)
	if t == nil {
		return
	}
	if _, ok := t.Underlying().(*types.Slice); !ok {
		return
	}
	switch x := unparen(a).(type) {
	case *ast.SliceExpr:
		if p, _ := m.path(x.X); !p {
			return
		}
		for _, ix := range []ast.Expr{x.Low, x.High, x.Max} {
			if ix != nil && !m.pureIndex(ix) {
				return
			}
		}
		if x.High != nil {
			if tv, ok := m.rw.info.Types[x.High]; ok && tv.Value != nil && tv.Value.String() == "0" {
				writer = true
			}
		}
		m.recordSlice(a, writer)
	default:
		if p, _ := m.path(a); p {
			m.recordSlice(a, writer)
		}
	}
}

func writerName(n string) bool {
	for _, p := range []string{"Read", "Append", "Put", "Encode", "Decode", "Copy", "Fill"} {
		if strings.HasPrefix(n, p) {
			return true
		}
	}
	return n == "Sum"
}

func (m *memPass) record(e ast.Expr, write, isMap bool) {
	key := exprString(m.rw.fset, e)
	for i := range m.accs {
		if m.accs[i].key == key && m.accs[i].isMap == isMap && !m.accs[i].isSlice {
			if write {
				m.accs[i].write = true
			}
			return
		}
	}
	m.accs = append(m.accs, memAcc{expr: e, write: write, isMap: isMap, key: key})
}

// pathAccess records e (a pure path) if shared, and the loads its evaluation performs.
func (m *memPass) pathAccess(e ast.Expr, write bool) bool {
	pure, shared := m.path(e)
	if !pure {
		return false
	}
	if shared {
		m.record(e, write, false)
	}
	m.loads(e)
	return true
}

// loads records the pointer / slice loads performed while computing the address of path e.
func (m *memPass) loads(e ast.Expr) {
	switch x := e.(type) {
	case *ast.ParenExpr:
		m.loads(x.X)
	case *ast.SelectorExpr:
		if id, ok := x.X.(*ast.Ident); ok {
			if _, isPkg := m.rw.info.Uses[id].(*types.PkgName); isPkg {
				return
			}
		}
		if isPtr(m.typeOf(x.X)) {
			m.visit(x.X, false)
		} else {
			m.loads(x.X)
		}
	case *ast.StarExpr:
		m.visit(x.X, false)
	case *ast.IndexExpr:
		m.visit(x.Index, false)
		t := m.typeOf(x.X)
		if t != nil {
			if _, isArr := t.Underlying().(*types.Array); isArr {
				m.loads(x.X)
				return
			}
		}
		m.visit(x.X, false)
	}
}

func (m *memPass) builtinName(e ast.Expr) string {
	id, ok := unparen(e).(*ast.Ident)
	if !ok {
		return ""
	}
	if _, isB := m.rw.info.Uses[id].(*types.Builtin); isB {
		return id.Name
	}
	return ""
}

// visit collects the accesses performed by evaluating e.
func (m *memPass) visit(e ast.Expr, write bool) {
	if e == nil {
		return
	}
	info := m.rw.info
	switch x := e.(type) {
	case *ast.FuncLit, *ast.BasicLit:
		return
	case *ast.ParenExpr:
		m.visit(x.X, write)
	case *ast.UnaryExpr:
		if x.Op == token.AND {
			if _, isLit := unparen(x.X).(*ast.CompositeLit); isLit {
				m.visit(x.X, false)
				return
			}
			if p, _ := m.path(x.X); p {
				m.loads(x.X)
				return
			}
		}
		m.visit(x.X, false)
	case *ast.BinaryExpr:
		m.visit(x.X, false)
		m.visit(x.Y, false)
	case *ast.KeyValueExpr:
		m.visit(x.Value, false)
		if id, ok := x.Key.(*ast.Ident); ok {
			if v, isVar := info.Uses[id].(*types.Var); isVar && v.IsField() {
				return
			}
		}
		m.visit(x.Key, false)
	case *ast.CompositeLit:
		for _, el := range x.Elts {
			m.visit(el, false)
		}
	case *ast.SliceExpr:
		m.visit(x.X, false)
		m.visit(x.Low, false)
		m.visit(x.High, false)
		m.visit(x.Max, false)
	case *ast.TypeAssertExpr:
		m.visit(x.X, false)
	case *ast.CallExpr:
		if tv, ok := info.Types[x.Fun]; ok && tv.IsType() {
			for _, a := range x.Args {
				m.visit(a, false)
			}
			return
		}
		switch m.builtinName(x.Fun) {
		case "delete":
			if len(x.Args) == 2 {
				m.mapAccess(x.Args[0], true)
				m.visit(x.Args[1], false)
			}
			return
		case "len", "cap":
			if len(x.Args) == 1 && m.isMapExpr(x.Args[0]) {
				m.mapAccess(x.Args[0], false)
				return
			}
		case "new", "make":
			for _, a := range x.Args[1:] {
				m.visit(a, false)
			}
			return
		case "copy":
			if len(x.Args) == 2 {
				m.sliceArg(x.Args[0], true)
				m.sliceArg(x.Args[1], false)
			}
		case "append":
			if len(x.Args) >= 1 {
				m.sliceArg(x.Args[0], true)
				for _, a := range x.Args[1:] {
					m.sliceArg(a, false)
				}
			}
		case "":
			name := ""
			switch f := unparen(x.Fun).(type) {
			case *ast.SelectorExpr:
				name = f.Sel.Name
			case *ast.Ident:
				name = f.Name
			}
			for _, a := range x.Args {
				m.sliceArg(a, writerName(name))
			}
		}
		if sel, ok := unparen(x.Fun).(*ast.SelectorExpr); ok {
			if s := info.Selections[sel]; s != nil && (s.Kind() == types.MethodVal) {
				if isPtr(m.typeOf(sel.X)) {
					m.visit(sel.X, false)
				} else if p, _ := m.path(sel.X); p {
					// addressable receiver: its address is taken (pointer method) or it is copied (value method)
					if sig, ok := s.Obj().Type().(*types.Signature); ok && sig.Recv() != nil && !isPtr(sig.Recv().Type()) {
						m.visit(sel.X, false)
					} else {
						m.loads(sel.X)
					}
				} else {
					m.visit(sel.X, false)
				}
			} else {
				m.visit(x.Fun, false)
			}
		} else {
			m.visit(x.Fun, false)
		}
		for _, a := range x.Args {
			m.visit(a, false)
		}
	case *ast.IndexExpr:
		if m.isMapExpr(x.X) {
			m.mapAccess(x.X, write)
			m.visit(x.Index, false)
			return
		}
		if m.pathAccess(e, write) {
			return
		}
		m.visit(x.X, false)
		m.visit(x.Index, false)
	case *ast.Ident:
		m.pathAccess(e, write)
	case *ast.SelectorExpr:
		if m.pathAccess(e, write) {
			return
		}
		if id, ok := x.X.(*ast.Ident); ok {
			if _, isPkg := info.Uses[id].(*types.PkgName); isPkg {
				return
			}
		}
		// method value or field of an impure expression
		m.visit(x.X, false)
	case *ast.StarExpr:
		if m.pathAccess(e, write) {
			return
		}
		m.visit(x.X, false)
	}
}

func (m *memPass) mapAccess(e ast.Expr, write bool) {
	// the map header itself is read
	m.visit(e, false)
	if p, _ := m.path(e); p {
		m.record(e, write, true)
	}
}

// ---- statements ----

func (m *memPass) lhs(e ast.Expr, define bool) {
	if id, ok := e.(*ast.Ident); ok {
		if id.Name == "_" {
			return
		}
		if define && m.rw.info.Defs[id] != nil {
			return
		}
	}
	m.visit(e, true)
}

// header collects the accesses of the parts of s that are evaluated when s is
// reached (not those of nested statement lists).
func (m *memPass) header(s ast.Stmt) {
	switch x := s.(type) {
	case *ast.ExprStmt:
		m.visit(x.X, false)
	case *ast.AssignStmt:
		for _, r := range x.Rhs {
			m.visit(r, false)
		}
		for _, l := range x.Lhs {
			m.lhs(l, x.Tok == token.DEFINE)
		}
	case *ast.IncDecStmt:
		m.visit(x.X, true)
	case *ast.SendStmt:
		m.visit(x.Chan, false)
		m.visit(x.Value, false)
	case *ast.ReturnStmt:
		for _, r := range x.Results {
			m.visit(r, false)
		}
	case *ast.GoStmt:
		m.visit(x.Call, false)
	case *ast.DeferStmt:
		m.visit(x.Call, false)
	case *ast.DeclStmt:
		if gd, ok := x.Decl.(*ast.GenDecl); ok && gd.Tok == token.VAR {
			for _, sp := range gd.Specs {
				for _, v := range sp.(*ast.ValueSpec).Values {
					m.visit(v, false)
				}
			}
		}
	case *ast.IfStmt:
		if x.Init != nil {
			m.header(x.Init)
		}
	case *ast.ForStmt:
		if x.Init != nil {
			m.header(x.Init)
		}
	case *ast.RangeStmt:
		if m.isMapExpr(x.X) {
			m.mapAccess(x.X, false)
		} else {
			m.visit(x.X, false)
		}
	case *ast.SwitchStmt:
		if x.Init != nil {
			m.header(x.Init)
		}
		m.visit(x.Tag, false)
	case *ast.TypeSwitchStmt:
		if x.Init != nil {
			m.header(x.Init)
		}
		switch a := x.Assign.(type) {
		case *ast.AssignStmt:
			m.visit(a.Rhs[0], false)
		case *ast.ExprStmt:
			m.visit(a.X, false)
		}
	case *ast.SelectStmt:
		for _, st := range x.Body.List {
			cc := st.(*ast.CommClause)
			switch cm := cc.Comm.(type) {
			case *ast.SendStmt:
				m.visit(cm.Chan, false)
				m.visit(cm.Value, false)
			case *ast.ExprStmt:
				m.visit(cm.X, false)
			case *ast.AssignStmt:
				for _, r := range cm.Rhs {
					m.visit(r, false)
				}
			}
		}
	case *ast.LabeledStmt:
		m.header(x.Stmt)
	}
}

// declaredIn reports whether e mentions an object declared inside [lo, hi).
func (m *memPass) declaredIn(e ast.Expr, lo, hi token.Pos) bool {
	found := false
	ast.Inspect(e, func(n ast.Node) bool {
		if id, ok := n.(*ast.Ident); ok {
			obj := m.rw.info.Uses[id]
			if obj == nil {
				obj = m.rw.info.Defs[id]
			}
			if obj != nil && obj.Pos() >= lo && obj.Pos() < hi {
				found = true
			}
		}
		return !found
	})
	return found
}

// cp copies a pure access path together with the type information later passes consult.
func (m *memPass) cp(e ast.Expr) ast.Expr {
	info := m.rw.info
	switch x := e.(type) {
	case *ast.Ident:
		n := ast.NewIdent(x.Name)
		if o := info.Uses[x]; o != nil {
			info.Uses[n] = o
		} else if o := info.Defs[x]; o != nil {
			info.Uses[n] = o
		}
		return n
	case *ast.ParenExpr:
		return &ast.ParenExpr{X: m.cp(x.X)}
	case *ast.SelectorExpr:
		n := &ast.SelectorExpr{X: m.cp(x.X), Sel: ast.NewIdent(x.Sel.Name)}
		if s := info.Selections[x]; s != nil {
			info.Selections[n] = s
		}
		if o := info.Uses[x.Sel]; o != nil {
			info.Uses[n.Sel] = o
		}
		return n
	case *ast.StarExpr:
		return &ast.StarExpr{X: m.cp(x.X)}
	case *ast.IndexExpr:
		return &ast.IndexExpr{X: m.cp(x.X), Index: m.cp(x.Index)}
	case *ast.BasicLit:
		return &ast.BasicLit{Kind: x.Kind, Value: x.Value}
	case *ast.SliceExpr:
		n := &ast.SliceExpr{X: m.cp(x.X), Slice3: x.Slice3}
		if x.Low != nil {
			n.Low = m.cp(x.Low)
		}
		if x.High != nil {
			n.High = m.cp(x.High)
		}
		if x.Max != nil {
			n.Max = m.cp(x.Max)
		}
		return n
	}
	return e
}

func (m *memPass) memCall(fn string, site string, a memAcc) *ast.CallExpr {
	var ret ast.Expr
	if a.isMap || a.isSlice {
		ret = m.cp(a.expr)
	} else {
		ret = &ast.UnaryExpr{Op: token.AND, X: &ast.ParenExpr{X: m.cp(a.expr)}}
	}
	lit := &ast.FuncLit{
		Type: &ast.FuncType{Params: &ast.FieldList{}, Results: &ast.FieldList{List: []*ast.Field{{Type: ast.NewIdent("any")}}}},
		Body: &ast.BlockStmt{List: []ast.Stmt{&ast.ReturnStmt{Results: []ast.Expr{ret}}}},
	}
	m.gen[lit] = true
	return call(m.rw.vs(fn), strLit(site), boolLit(a.write), lit)
}

func (m *memPass) vsOff() ast.Expr {
	return &ast.BinaryExpr{X: m.rw.vs("S"), Op: token.EQL, Y: ast.NewIdent("nil")}
}

// take returns the accesses collected so far that may be announced before a
// statement spanning [lo, hi), and resets the collection.
func (m *memPass) take(lo, hi token.Pos) []memAcc {
	var out []memAcc
	for _, a := range m.accs {
		if lo != token.NoPos && m.declaredIn(a.expr, lo, hi) {
			m.stats.skipped++
			continue
		}
		out = append(out, a)
	}
	m.accs = nil
	return out
}

func (m *memPass) announce(site string, accs []memAcc) ast.Stmt {
	if len(accs) == 0 {
		return nil
	}
	var body []ast.Stmt
	for _, a := range accs {
		body = append(body, &ast.ExprStmt{X: m.memCall("Mem", site, a)})
		m.stats.sites++
	}
	return &ast.IfStmt{
		Cond: &ast.BinaryExpr{X: m.rw.vs("S"), Op: token.NEQ, Y: ast.NewIdent("nil")},
		Body: &ast.BlockStmt{List: body},
	}
}

// guard wraps cond so that the accesses are announced each time it is evaluated.
func (m *memPass) guard(site string, cond ast.Expr, accs []memAcc) ast.Expr {
	if len(accs) == 0 || cond == nil {
		return cond
	}
	var all ast.Expr
	for _, a := range accs {
		c := ast.Expr(m.memCall("MemT", site, a))
		m.stats.sites++
		if all == nil {
			all = c
		} else {
			all = &ast.BinaryExpr{X: all, Op: token.LAND, Y: c}
		}
	}
	g := &ast.ParenExpr{X: &ast.BinaryExpr{X: m.vsOff(), Op: token.LOR, Y: &ast.ParenExpr{X: all}}}
	return &ast.BinaryExpr{X: g, Op: token.LAND, Y: &ast.ParenExpr{X: cond}}
}

func (m *memPass) list(in []ast.Stmt) []ast.Stmt {
	out := make([]ast.Stmt, 0, len(in))
	for _, s := range in {
		inner := s
		for {
			if l, ok := inner.(*ast.LabeledStmt); ok {
				inner = l.Stmt
				continue
			}
			break
		}
		site := m.rw.site(s.Pos())
		m.accs = nil
		m.header(inner)
		pre := m.take(s.Pos(), s.End())
		if st := m.announce(site, pre); st != nil {
			out = append(out, st)
		}
		// conditions are evaluated after Init: announced inside the condition itself
		switch x := inner.(type) {
		case *ast.IfStmt:
			m.condChain(x)
		case *ast.ForStmt:
			if x.Cond != nil {
				m.accs = nil
				m.visit(x.Cond, false)
				x.Cond = m.guard(m.rw.site(x.Cond.Pos()), x.Cond, m.take(token.NoPos, token.NoPos))
			}
		}
		out = append(out, s)
	}
	return out
}

func (m *memPass) condChain(x *ast.IfStmt) {
	m.accs = nil
	m.visit(x.Cond, false)
	x.Cond = m.guard(m.rw.site(x.Cond.Pos()), x.Cond, m.take(token.NoPos, token.NoPos))
	if ei, ok := x.Else.(*ast.IfStmt); ok {
		// an else-if without Init (those with Init were wrapped into blocks)
		m.condChain(ei)
	}
}
