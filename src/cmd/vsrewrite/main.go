// Command vsrewrite virtualises the current working tree of a Go module: it
// rewrites goroutine starts, channel operations, select statements and a table
// of library calls onto the vs scheduler and its environment fakes, and emits a
// `go build -overlay` file that maps every original file to its rewritten twin
// and adds the runtime, the fakes and the harnesses as virtual packages of the
// module. The tree itself is never written.
package main

import (
	"bytes"
	"encoding/json"
	"flag"
	"fmt"
	"go/ast"
	"go/format"
	"go/token"
	"go/types"
	"os"
	"path/filepath"
	"sort"
	"strings"

	"golang.org/x/tools/go/ast/astutil"
	"golang.org/x/tools/go/packages"
)

const modPath = "github.com/google/inverting-proxy"
const zz = modPath + "/zz_verif/"

// shim describes where a package-level identifier is redirected to.
type shim struct {
	pkg   string // import path of the shim package
	alias string
}

var (
	shVsync   = shim{zz + "vsync", "vsync"}
	shVatomic = shim{zz + "vatomic", "vatomic"}
	shVtime   = shim{zz + "vtime", "vtime"}
	shVctx    = shim{zz + "vctx", "vctx"}
	shVenv    = shim{zz + "venv", "venv"}
	shVio     = shim{zz + "vio", "vio"}
	shVnet    = shim{zz + "vnet", "vnet"}
	shVws     = shim{zz + "vws", "vws"}
	shVae     = shim{zz + "vae", "vae"}
	shVaeDS   = shim{zz + "vae/datastore", "vaedatastore"}
	shVaeMC   = shim{zz + "vae/memcache", "vaememcache"}
	shVaeUser = shim{zz + "vae/user", "vaeuser"}
	shVs      = shim{zz + "vs", "zzvs"}
)

// whole packages that are replaced
var fullSwap = map[string]shim{
	"sync":                           shVsync,
	"sync/atomic":                    shVatomic,
	"github.com/gorilla/websocket":   shVws,
	"google.golang.org/appengine/v2": shVae,
	"google.golang.org/appengine/v2/datastore": shVaeDS,
	"google.golang.org/appengine/v2/memcache":  shVaeMC,
	"google.golang.org/appengine/v2/user":      shVaeUser,
}

// single identifiers that are replaced: import path -> name -> shim (new name = same name unless renamed)
type selShim struct {
	shim
	name string
}

var selSwap = map[string]map[string]selShim{
	"time": {
		"After": {shVtime, ""}, "Sleep": {shVtime, ""}, "NewTicker": {shVtime, ""}, "NewTimer": {shVtime, ""},
		"AfterFunc": {shVtime, ""}, "Tick": {shVtime, ""}, "Now": {shVtime, ""}, "Since": {shVtime, ""},
		"Until": {shVtime, ""}, "Ticker": {shVtime, ""}, "Timer": {shVtime, ""},
	},
	"context": {
		"WithCancel": {shVctx, ""}, "WithTimeout": {shVctx, ""}, "WithDeadline": {shVctx, ""},
	},
	"io": {
		"Pipe": {shVio, ""}, "PipeReader": {shVio, ""}, "PipeWriter": {shVio, ""},
	},
	"log": {
		"Fatal": {shVenv, ""}, "Fatalf": {shVenv, ""}, "Fatalln": {shVenv, ""},
	},
	"os": {
		"Exit": {shVenv, ""},
	},
	"os/signal": {
		"Notify": {shVenv, ""}, "Stop": {shVenv, "SignalStop"}, "Reset": {shVenv, "SignalReset"},
	},
	"math/rand": {
		"Float64": {shVenv, ""}, "NewSource": {shVenv, ""}, "Int63": {shVenv, ""}, "Intn": {shVenv, ""}, "Int": {shVenv, ""},
	},
	"github.com/google/uuid": {
		"New": {shVenv, "NewUUID"}, "NewString": {shVenv, "NewUUIDString"},
	},
	"net/http": {
		"Get": {shVenv, "HTTPGet"}, "Serve": {shVenv, "HTTPServe"}, "ListenAndServe": {shVenv, "HTTPListenAndServe"},
		"ReadResponse": {shVenv, "HTTPReadResponse"},
	},
	"net/http/httputil": {
		"NewSingleHostReverseProxy": {shVenv, ""},
	},
	"net": {
		"Listen": {shVnet, ""}, "Dial": {shVnet, ""}, "DialTimeout": {shVnet, ""},
	},
	"golang.org/x/oauth2/google": {
		"NewSDKConfig": {shVenv, ""}, "DefaultClient": {shVenv, ""},
	},
	"cloud.google.com/go/compute/metadata": {
		"OnGCE": {shVenv, ""}, "Get": {shVenv, "MetadataGet"},
	},
}

// receiver types whose method calls are declared accesses: pkgpath.Type -> write?
var accessTypes = map[string]bool{
	"github.com/golang/groupcache/lru.Cache": true,
	"math/rand.Rand":                         true,
}

type fileRW struct {
	fset    *token.FileSet
	info    *types.Info
	file    *ast.File
	pkg     *types.Package
	need    map[shim]bool
	kept    map[string]int // import path -> remaining references
	inSel   map[ast.Node]bool
	errs    []string
	counter int
	// qualify: when rewriting a foreign package into a virtual one (vio), package-level
	// objects declared outside the rewritten file set are qualified with this alias.
	qualifyPkg  *types.Package
	qualifyName string
	ownFiles    map[*token.File]bool
}

func (rw *fileRW) errorf(pos token.Pos, f string, a ...interface{}) {
	rw.errs = append(rw.errs, fmt.Sprintf("%s: %s", rw.fset.Position(pos), fmt.Sprintf(f, a...)))
}

func (rw *fileRW) vs(name string) ast.Expr {
	rw.need[shVs] = true
	return &ast.SelectorExpr{X: ast.NewIdent("zzvs"), Sel: ast.NewIdent(name)}
}

func call(fun ast.Expr, args ...ast.Expr) *ast.CallExpr {
	return &ast.CallExpr{Fun: fun, Args: args}
}

func strLit(s string) ast.Expr {
	return &ast.BasicLit{Kind: token.STRING, Value: fmt.Sprintf("%q", s)}
}

func intLit(i int) ast.Expr { return &ast.BasicLit{Kind: token.INT, Value: fmt.Sprint(i)} }

func boolLit(b bool) ast.Expr {
	if b {
		return ast.NewIdent("true")
	}
	return ast.NewIdent("false")
}

func (rw *fileRW) site(pos token.Pos) string {
	p := rw.fset.Position(pos)
	return fmt.Sprintf("%s:%d", filepath.Base(p.Filename), p.Line)
}

func (rw *fileRW) isChan(e ast.Expr) bool {
	t := rw.info.TypeOf(e)
	if t == nil {
		return false
	}
	_, ok := t.Underlying().(*types.Chan)
	return ok
}

func (rw *fileRW) isBuiltin(e ast.Expr, name string) bool {
	id, ok := e.(*ast.Ident)
	if !ok || id.Name != name {
		return false
	}
	_, isB := rw.info.Uses[id].(*types.Builtin)
	return isB
}

func (rw *fileRW) tmp(prefix string) string {
	rw.counter++
	return fmt.Sprintf("_v%s%d", prefix, rw.counter)
}

// constOrNil reports whether e needs no evaluation-time capture.
func (rw *fileRW) constOrNil(e ast.Expr) bool {
	tv, ok := rw.info.Types[e]
	if !ok {
		return false
	}
	return tv.Value != nil || tv.IsNil()
}

func (rw *fileRW) rewriteGo(g *ast.GoStmt) ast.Stmt {
	c := g.Call
	site := strLit(rw.site(g.Pos()))
	var pre []ast.Stmt
	var args []ast.Expr
	multi := false
	if len(c.Args) == 1 {
		if tv, ok := rw.info.Types[c.Args[0]]; ok {
			if _, isT := tv.Type.(*types.Tuple); isT {
				multi = true
			}
		}
	}
	for _, a := range c.Args {
		if rw.constOrNil(a) || multi {
			args = append(args, a)
			continue
		}
		if fl, ok := a.(*ast.FuncLit); ok {
			args = append(args, fl)
			continue
		}
		n := rw.tmp("a")
		pre = append(pre, &ast.AssignStmt{Lhs: []ast.Expr{ast.NewIdent(n)}, Tok: token.DEFINE, Rhs: []ast.Expr{a}})
		args = append(args, ast.NewIdent(n))
	}
	var fun ast.Expr = c.Fun
	if _, isLit := c.Fun.(*ast.FuncLit); !isLit {
		// a method value binds its receiver now, exactly like the go statement does
		isPlainFunc := false
		switch f := c.Fun.(type) {
		case *ast.Ident:
			if _, ok := rw.info.Uses[f].(*types.Func); ok {
				isPlainFunc = true
			}
		case *ast.SelectorExpr:
			if id, ok := f.X.(*ast.Ident); ok {
				if _, ok := rw.info.Uses[id].(*types.PkgName); ok {
					isPlainFunc = true
				}
			}
		}
		if !isPlainFunc {
			n := rw.tmp("f")
			pre = append(pre, &ast.AssignStmt{Lhs: []ast.Expr{ast.NewIdent(n)}, Tok: token.DEFINE, Rhs: []ast.Expr{c.Fun}})
			fun = ast.NewIdent(n)
		}
	}
	inner := &ast.CallExpr{Fun: fun, Args: args, Ellipsis: c.Ellipsis}
	if len(pre) == 0 {
		if fl, ok := c.Fun.(*ast.FuncLit); ok && len(c.Args) == 0 && fl.Type.Results == nil {
			return &ast.ExprStmt{X: call(rw.vs("GoAt"), site, fl)}
		}
	}
	if c.Ellipsis != token.NoPos {
		inner.Ellipsis = 1
	}
	body := &ast.FuncLit{Type: &ast.FuncType{Params: &ast.FieldList{}}, Body: &ast.BlockStmt{List: []ast.Stmt{&ast.ExprStmt{X: inner}}}}
	st := &ast.ExprStmt{X: call(rw.vs("GoAt"), site, body)}
	if len(pre) == 0 {
		return st
	}
	return &ast.BlockStmt{List: append(pre, st)}
}

func (rw *fileRW) rewriteSelect(s *ast.SelectStmt) ast.Stmt {
	hasDef := false
	var lhs []ast.Expr
	var rhs []ast.Expr
	var clauses []ast.Stmt
	idx := 0
	for _, st := range s.Body.List {
		cc := st.(*ast.CommClause)
		if cc.Comm == nil {
			hasDef = true
			clauses = append(clauses, &ast.CaseClause{List: nil, Body: cc.Body})
			continue
		}
		name := rw.tmp("c")
		lhs = append(lhs, ast.NewIdent(name))
		var body []ast.Stmt
		switch cm := cc.Comm.(type) {
		case *ast.SendStmt:
			rhs = append(rhs, call(call(rw.vs("SendCase"), cm.Chan), cm.Value))
		case *ast.ExprStmt:
			u, ok := unparen(cm.X).(*ast.UnaryExpr)
			if !ok || u.Op != token.ARROW {
				rw.errorf(cm.Pos(), "unsupported select clause")
				return s
			}
			rhs = append(rhs, call(rw.vs("RecvCase"), u.X))
		case *ast.AssignStmt:
			u, ok := unparen(cm.Rhs[0]).(*ast.UnaryExpr)
			if !ok || u.Op != token.ARROW {
				rw.errorf(cm.Pos(), "unsupported select clause")
				return s
			}
			rhs = append(rhs, call(rw.vs("RecvCase"), u.X))
			m := "Recv1"
			if len(cm.Lhs) == 2 {
				m = "Recv2"
			}
			get := call(&ast.SelectorExpr{X: ast.NewIdent(name), Sel: ast.NewIdent(m)})
			// "case v := <-ch:" with v unused is legal Go only if ... it is not; but "_" is.
			body = append(body, &ast.AssignStmt{Lhs: cm.Lhs, Tok: cm.Tok, Rhs: []ast.Expr{get}})
		default:
			rw.errorf(cc.Pos(), "unsupported select clause")
			return s
		}
		body = append(body, cc.Body...)
		clauses = append(clauses, &ast.CaseClause{List: []ast.Expr{intLit(idx)}, Body: body})
		idx++
	}
	args := []ast.Expr{boolLit(hasDef)}
	for _, l := range lhs {
		args = append(args, ast.NewIdent(l.(*ast.Ident).Name))
	}
	if !hasDef {
		// keeps the statement terminating when every clause returns, as the select was
		clauses = append(clauses, &ast.CaseClause{List: nil, Body: []ast.Stmt{&ast.ExprStmt{X: call(ast.NewIdent("panic"), strLit("vs: blocking select fell through"))}}})
	}
	sw := &ast.SwitchStmt{Tag: call(rw.vs("Select"), args...), Body: &ast.BlockStmt{List: clauses}}
	if len(lhs) > 0 {
		sw.Init = &ast.AssignStmt{Lhs: lhs, Tok: token.DEFINE, Rhs: rhs}
	}
	return sw
}

func unparen(e ast.Expr) ast.Expr {
	for {
		p, ok := e.(*ast.ParenExpr)
		if !ok {
			return e
		}
		e = p.X
	}
}

func (rw *fileRW) rewriteRange(r *ast.RangeStmt) ast.Stmt {
	name := rw.tmp("r")
	init := &ast.AssignStmt{Lhs: []ast.Expr{ast.NewIdent(name)}, Tok: token.DEFINE, Rhs: []ast.Expr{call(rw.vs("Range"), r.X)}}
	cond := call(&ast.SelectorExpr{X: ast.NewIdent(name), Sel: ast.NewIdent("Next")})
	body := r.Body
	if r.Key != nil {
		if id, ok := r.Key.(*ast.Ident); !ok || id.Name != "_" {
			val := call(&ast.SelectorExpr{X: ast.NewIdent(name), Sel: ast.NewIdent("Val")})
			as := &ast.AssignStmt{Lhs: []ast.Expr{r.Key}, Tok: r.Tok, Rhs: []ast.Expr{val}}
			body = &ast.BlockStmt{List: append([]ast.Stmt{as}, r.Body.List...)}
		}
	}
	return &ast.ForStmt{Init: init, Cond: cond, Body: body}
}

// pkgOf returns the imported package an identifier refers to, if any.
func (rw *fileRW) pkgOf(e ast.Expr) *types.PkgName {
	id, ok := e.(*ast.Ident)
	if !ok {
		return nil
	}
	pn, _ := rw.info.Uses[id].(*types.PkgName)
	return pn
}

func namedOf(t types.Type) *types.Named {
	for {
		switch x := t.(type) {
		case *types.Pointer:
			t = x.Elem()
		case *types.Named:
			return x
		default:
			return nil
		}
	}
}

func (rw *fileRW) apply() {
	rw.inSel = map[ast.Node]bool{}
	pre := func(c *astutil.Cursor) bool {
		switch n := c.Node().(type) {
		case *ast.SelectStmt:
			for _, st := range n.Body.List {
				cc := st.(*ast.CommClause)
				switch cm := cc.Comm.(type) {
				case *ast.SendStmt:
					rw.inSel[cm] = true
				case *ast.ExprStmt:
					rw.inSel[unparen(cm.X)] = true
				case *ast.AssignStmt:
					if len(cm.Rhs) == 1 {
						rw.inSel[unparen(cm.Rhs[0])] = true
					}
				}
			}
		case *ast.LabeledStmt:
			switch n.Stmt.(type) {
			case *ast.GoStmt:
				rw.errorf(n.Pos(), "labelled go statement not supported")
			}
		}
		return true
	}
	post := func(c *astutil.Cursor) bool {
		switch n := c.Node().(type) {
		case *ast.GoStmt:
			c.Replace(rw.rewriteGo(n))
		case *ast.SendStmt:
			if rw.inSel[n] {
				return true
			}
			c.Replace(&ast.ExprStmt{X: call(call(rw.vs("Send"), n.Chan), n.Value)})
		case *ast.UnaryExpr:
			if n.Op != token.ARROW || rw.inSel[n] {
				return true
			}
			two := false
			switch p := c.Parent().(type) {
			case *ast.AssignStmt:
				two = len(p.Lhs) == 2 && len(p.Rhs) == 1
			case *ast.ValueSpec:
				two = len(p.Names) == 2 && len(p.Values) == 1
			case *ast.ParenExpr:
				// (<-ch) in a two-value context is vanishingly rare; treat as single
			}
			if two {
				c.Replace(call(rw.vs("Recv2"), n.X))
			} else {
				c.Replace(call(rw.vs("Recv"), n.X))
			}
		case *ast.CallExpr:
			if rw.isBuiltin(n.Fun, "close") && len(n.Args) == 1 {
				c.Replace(call(rw.vs("Close"), n.Args[0]))
				return true
			}
			// declared accesses on non-thread-safe library objects
			if sel, ok := n.Fun.(*ast.SelectorExpr); ok {
				if s, ok := rw.info.Selections[sel]; ok && s.Kind() == types.MethodVal {
					if nm := namedOf(s.Recv()); nm != nil && nm.Obj().Pkg() != nil {
						key := nm.Obj().Pkg().Path() + "." + nm.Obj().Name()
						if _, ok := accessTypes[key]; ok {
							if _, isPtr := rw.info.TypeOf(sel.X).(*types.Pointer); isPtr {
								sel.X = call(rw.vs("AccessV"), sel.X, strLit(nm.Obj().Name()+"@"+rw.site(n.Pos())), boolLit(true))
							}
						}
					}
				}
			}
		case *ast.RangeStmt:
			if rw.isChan(n.X) {
				if _, lab := c.Parent().(*ast.LabeledStmt); lab {
					// the replacement is still a single for statement, labels stay valid
				}
				c.Replace(rw.rewriteRange(n))
			}
		case *ast.SelectStmt:
			c.Replace(rw.rewriteSelect(n))
		case *ast.SelectorExpr:
			pn := rw.pkgOf(n.X)
			if pn == nil {
				return true
			}
			path := pn.Imported().Path()
			if sh, ok := fullSwap[path]; ok {
				rw.need[sh] = true
				n.X = ast.NewIdent(sh.alias)
				return true
			}
			if m, ok := selSwap[path]; ok {
				if sh, ok := m[n.Sel.Name]; ok {
					rw.need[sh.shim] = true
					n.X = ast.NewIdent(sh.alias)
					if sh.name != "" {
						n.Sel = ast.NewIdent(sh.name)
					}
					return true
				}
			}
			rw.kept[path]++
		case *ast.Ident:
			// qualification of foreign package-level objects (vio generation)
			if rw.qualifyPkg == nil {
				return true
			}
			if _, isSel := c.Parent().(*ast.SelectorExpr); isSel && c.Name() == "Sel" {
				return true
			}
			obj := rw.info.Uses[n]
			if obj == nil || obj.Pkg() != rw.qualifyPkg || obj.Parent() != rw.qualifyPkg.Scope() {
				return true
			}
			if rw.ownFiles[rw.fset.File(obj.Pos())] {
				return true
			}
			if kv, ok := c.Parent().(*ast.KeyValueExpr); ok && kv.Key == n {
				return true
			}
			c.Replace(&ast.SelectorExpr{X: ast.NewIdent(rw.qualifyName), Sel: ast.NewIdent(n.Name)})
		}
		return true
	}
	astutil.Apply(rw.file, pre, post)
}

func (rw *fileRW) fixImports() {
	// drop imports that are no longer referenced
	used := map[string]bool{}
	ast.Inspect(rw.file, func(n ast.Node) bool {
		if se, ok := n.(*ast.SelectorExpr); ok {
			if id, ok := se.X.(*ast.Ident); ok {
				used[id.Name] = true
			}
		}
		return true
	})
	pkgName := map[string]string{}
	for _, ip := range rw.pkg.Imports() {
		pkgName[ip.Path()] = ip.Name()
	}
	for _, imp := range append([]*ast.ImportSpec{}, rw.file.Imports...) {
		path := strings.Trim(imp.Path.Value, `"`)
		if imp.Name != nil && (imp.Name.Name == "_" || imp.Name.Name == ".") {
			continue
		}
		local := pkgName[path]
		name := ""
		if imp.Name != nil {
			name = imp.Name.Name
			local = name
		}
		if local == "" {
			continue
		}
		if !used[local] {
			astutil.DeleteNamedImport(rw.fset, rw.file, name, path)
		}
	}
	var shims []shim
	for sh := range rw.need {
		shims = append(shims, sh)
	}
	sort.Slice(shims, func(i, j int) bool { return shims[i].pkg < shims[j].pkg })
	for _, sh := range shims {
		astutil.AddNamedImport(rw.fset, rw.file, sh.alias, sh.pkg)
	}
}

type overlay struct {
	Replace map[string]string
}

func main() {
	repo := flag.String("repo", "/repo", "module root")
	out := flag.String("out", "", "scratch directory for rewritten files")
	rt := flag.String("rt", "/verif/rt", "runtime packages directory (becomes zz_verif/*)")
	harness := flag.String("harness", "/verif/harness", "harness packages directory (becomes zz_verif/h/*)")
	norewrite := flag.Bool("norewrite", false, "only add the virtual packages, leave repository files untouched")
	mem := flag.Bool("mem", true, "announce plain-memory accesses (data-race detection and access scheduling points)")
	flag.Parse()
	if *out == "" {
		fmt.Fprintln(os.Stderr, "need -out")
		os.Exit(2)
	}
	ov := overlay{Replace: map[string]string{}}
	report := map[string]interface{}{}
	var allErrs []string

	if !*norewrite {
		cfg := &packages.Config{
			Mode: packages.NeedName | packages.NeedFiles | packages.NeedCompiledGoFiles | packages.NeedSyntax | packages.NeedTypes | packages.NeedTypesInfo | packages.NeedImports | packages.NeedDeps,
			Dir:  *repo,
			Env:  append(os.Environ(), "GOFLAGS=-mod=mod", "GOPROXY=off", "GOSUMDB=off"),
		}
		pkgs, err := packages.Load(cfg, "./agent/...", "./server/...", "./app/...", "./utils/...", "io")
		if err != nil {
			fmt.Fprintln(os.Stderr, "load:", err)
			os.Exit(3)
		}
		nfiles := 0
		memSites, memSkipped := 0, 0
		for _, p := range pkgs {
			if len(p.Errors) > 0 {
				for _, e := range p.Errors {
					allErrs = append(allErrs, fmt.Sprintf("%s: %v", p.PkgPath, e))
				}
				continue
			}
			if p.PkgPath == "io" {
				errs := genVio(p, *out, &ov, *repo)
				allErrs = append(allErrs, errs...)
				continue
			}
			rel := strings.TrimPrefix(strings.TrimPrefix(p.PkgPath, modPath), "/")
			isMain := p.Name == "main"
			for i, f := range p.Syntax {
				fn := p.CompiledGoFiles[i]
				if !strings.HasPrefix(fn, *repo+"/") {
					continue
				}
				rw := &fileRW{fset: p.Fset, info: p.TypesInfo, file: f, pkg: p.Types, need: map[shim]bool{}, kept: map[string]int{}}
				var buildLines []string
				for _, cg := range f.Comments {
					for _, c := range cg.List {
						if strings.HasPrefix(c.Text, "//go:build") && c.Pos() < f.Package {
							buildLines = append(buildLines, c.Text)
						}
					}
				}
				f.Comments = nil
				f.Doc = nil
				stripDocs(f)
				if *mem {
					a, b := rw.memInstrument()
					memSites += a
					memSkipped += b
				}
				rw.apply()
				rw.fixImports()
				allErrs = append(allErrs, rw.errs...)
				dst := filepath.Join(*out, "rw", rel, filepath.Base(fn))
				target := fn
				if isMain && i == 0 {
					// one extra file per program: resets package-level variables that have no
					// initialiser (state that main() sets up) so that main can be run afresh
					var sb strings.Builder
					vname := "v" + strings.ReplaceAll(filepath.Base(rel), "-", "")
					sb.WriteString("package " + vname + "\n\nimport vs \"" + zz + "vs\"\n\nvar _ = vs.Active\n\nfunc ResetForTest() {\n")
					for _, f2 := range p.Syntax {
						for _, d := range f2.Decls {
							gd, ok := d.(*ast.GenDecl)
							if !ok || gd.Tok != token.VAR {
								continue
							}
							for _, sp := range gd.Specs {
								vsp := sp.(*ast.ValueSpec)
								if vsp.Type == nil || len(vsp.Values) != 0 {
									continue
								}
								for _, n := range vsp.Names {
									if n.Name != "_" {
										sb.WriteString("\tvs.Zero(&" + n.Name + ")\n")
									}
								}
							}
						}
					}
					sb.WriteString("}\n")
					rdst := filepath.Join(*out, "rw", rel, "zz_reset.go")
					os.MkdirAll(filepath.Dir(rdst), 0755)
					os.WriteFile(rdst, []byte(sb.String()), 0644)
					ov.Replace[filepath.Join(*repo, "zz_verif", "p", vname, "zz_reset.go")] = rdst
				}
				if isMain {
					// package main programs become importable virtual packages
					vname := "v" + strings.ReplaceAll(filepath.Base(rel), "-", "")
					f.Name = ast.NewIdent(vname)
					for _, d := range f.Decls {
						if fd, ok := d.(*ast.FuncDecl); ok && fd.Recv == nil && fd.Name.Name == "main" {
							fd.Name = ast.NewIdent("Main")
						}
					}
					target = filepath.Join(*repo, "zz_verif", "p", vname, filepath.Base(fn))
				}
				var buf bytes.Buffer
				for _, l := range buildLines {
					buf.WriteString(l + "\n\n")
				}
				if err := format.Node(&buf, p.Fset, f); err != nil {
					allErrs = append(allErrs, fmt.Sprintf("%s: print: %v", fn, err))
					continue
				}
				os.MkdirAll(filepath.Dir(dst), 0755)
				if err := os.WriteFile(dst, buf.Bytes(), 0644); err != nil {
					allErrs = append(allErrs, err.Error())
					continue
				}
				ov.Replace[target] = dst
				nfiles++
			}
		}
		report["files_rewritten"] = nfiles
		report["mem_announcements"] = memSites
		report["mem_skipped"] = memSkipped
	}
	// runtime + fakes
	addTree(&ov, *rt, filepath.Join(*repo, "zz_verif"))
	addTree(&ov, *harness, filepath.Join(*repo, "zz_verif", "h"))
	b, _ := json.MarshalIndent(ov, "", " ")
	os.MkdirAll(*out, 0755)
	if err := os.WriteFile(filepath.Join(*out, "overlay.json"), b, 0644); err != nil {
		fmt.Fprintln(os.Stderr, err)
		os.Exit(3)
	}
	report["errors"] = allErrs
	rb, _ := json.MarshalIndent(report, "", " ")
	os.WriteFile(filepath.Join(*out, "rewrite_report.json"), rb, 0644)
	if len(allErrs) > 0 {
		for _, e := range allErrs {
			fmt.Fprintln(os.Stderr, "vsrewrite:", e)
		}
		os.Exit(1)
	}
}

func exprString(fset *token.FileSet, e ast.Expr) string {
	var b bytes.Buffer
	format.Node(&b, fset, e)
	return b.String()
}

func stripDocs(f *ast.File) {
	ast.Inspect(f, func(n ast.Node) bool {
		switch x := n.(type) {
		case *ast.GenDecl:
			x.Doc = nil
		case *ast.FuncDecl:
			x.Doc = nil
		case *ast.Field:
			x.Doc, x.Comment = nil, nil
		case *ast.ValueSpec:
			x.Doc, x.Comment = nil, nil
		case *ast.TypeSpec:
			x.Doc, x.Comment = nil, nil
		case *ast.ImportSpec:
			x.Doc, x.Comment = nil, nil
		}
		return true
	})
}

func addTree(ov *overlay, src, dst string) {
	filepath.Walk(src, func(p string, fi os.FileInfo, err error) error {
		if err != nil || fi.IsDir() {
			return nil
		}
		if !strings.HasSuffix(p, ".go") {
			return nil
		}
		rel, _ := filepath.Rel(src, p)
		ov.Replace[filepath.Join(dst, rel)] = p
		return nil
	})
}

// genVio generates zz_verif/vio from the standard library's io/pipe.go.
func genVio(p *packages.Package, out string, ov *overlay, repo string) []string {
	var errs []string
	for i, f := range p.Syntax {
		fn := p.CompiledGoFiles[i]
		if filepath.Base(fn) != "pipe.go" {
			continue
		}
		rw := &fileRW{fset: p.Fset, info: p.TypesInfo, file: f, pkg: p.Types, need: map[shim]bool{}, kept: map[string]int{},
			qualifyPkg: p.Types, qualifyName: "io", ownFiles: map[*token.File]bool{p.Fset.File(f.Pos()): true}}
		f.Comments = nil
		f.Doc = nil
		stripDocs(f)
		// ErrClosedPipe must stay identical to io.ErrClosedPipe
		for _, d := range f.Decls {
			gd, ok := d.(*ast.GenDecl)
			if !ok || gd.Tok != token.VAR {
				continue
			}
			for _, sp := range gd.Specs {
				vsp := sp.(*ast.ValueSpec)
				if len(vsp.Names) == 1 && vsp.Names[0].Name == "ErrClosedPipe" {
					vsp.Values = []ast.Expr{&ast.SelectorExpr{X: ast.NewIdent("io"), Sel: ast.NewIdent("ErrClosedPipe")}}
				}
			}
		}
		rw.apply()
		rw.fixImports()
		astutil.AddImport(p.Fset, f, "io")
		f.Name = ast.NewIdent("viogen")
		errs = append(errs, rw.errs...)
		var buf bytes.Buffer
		if err := format.Node(&buf, p.Fset, f); err != nil {
			return append(errs, "vio: "+err.Error())
		}
		dst := filepath.Join(out, "rw", "_viogen", "pipe.go")
		os.MkdirAll(filepath.Dir(dst), 0755)
		os.WriteFile(dst, buf.Bytes(), 0644)
		ov.Replace[filepath.Join(repo, "zz_verif", "viogen", "pipe.go")] = dst
	}
	return errs
}
