// Harness c01: the stand-alone proxy (server/server.go, through its main())
// with K concurrent clients, P pollers and one worker per listed request ID,
// all as controlled threads. Decides C01 (proxy core) and the proxy half of C04.
package main

import (
	"bytes"
	"encoding/json"
	"flag"
	"fmt"
	"net"
	"net/http"
	"net/http/httptest"
	"strings"
	"time"
	"unsafe"

	"github.com/google/inverting-proxy/agent/utils"
	vserver "github.com/google/inverting-proxy/zz_verif/p/vserver"
	"github.com/google/inverting-proxy/zz_verif/vctx"
	"github.com/google/inverting-proxy/zz_verif/venv"
	"github.com/google/inverting-proxy/zz_verif/vh"
	"github.com/google/inverting-proxy/zz_verif/vs"
	"github.com/google/inverting-proxy/zz_verif/vx"
)

type world struct {
	cancelled bool
	handler   http.Handler
	served    int
	lists     [][]string
	fetched   map[string]string // request id -> token of the request it carried
}

func tok(i int) string { return fmt.Sprintf("tok%d", i) }

func bodyFor(i, size int) string {
	if size == 0 {
		return ""
	}
	return strings.Repeat(fmt.Sprintf("<%s>", tok(i)), size/6+1)[:size]
}

func scenario(name string, K, P int, sizes []int, pb int) vx.Scenario {
	return scenarioC(name, K, P, sizes, pb, false)
}

// hangUp: the first poll of poller 0 is made by an agent that hangs up (its request context is cancelled at
// a point the explorer picks) but still reads what it is sent, as a half-closing client does.
var hangUp = map[string]bool{}

// burst: the agent is away while the clients arrive; its first poll only starts when all of them are waiting
var burst = map[string]bool{}

func scenarioB(name string, K, P int, sizes []int) vx.Scenario {
	burst[name] = true
	sc := scenarioC(name, K, P, sizes, 0, false)
	sc.Single = true
	sc.MaxSteps = 100000
	// a client that is never answered keeps the pollers polling: two minutes of virtual time are enough
	sc.MaxTime = 2 * time.Minute
	return sc
}

func scenarioH(name string, K, P int, sizes []int, pb int) vx.Scenario {
	hangUp[name] = true
	return scenarioC(name, K, P, sizes, pb, false)
}

func scenarioC(name string, K, P int, sizes []int, pb int, cancelFirst bool) vx.Scenario {
	return vx.Scenario{
		// the cancellation scenarios have two more threads; they are explored delay-bounded
		Name: name, PB: pb, MaxSteps: 5000,
		Setup: func(s *vs.Sched) func(*vs.Result) vx.Exec {
			w := &world{fetched: map[string]string{}}
			hooks := venv.Reset()
			hooks.Serve = func(l net.Listener, h http.Handler) error {
				vs.Touch(unsafe.Pointer(w))
				w.handler = h
				vh.Forever("http.Serve")
				return nil
			}
			vh.SetArgs("server", "--port=0")
			s.DaemonThread("main", func() { vserver.Main() })
			recs := make([]*vh.Rec, K)
			for i := 0; i < K; i++ {
				i := i
				recs[i] = vh.NewRec()
				s.Thread(fmt.Sprintf("client%d", i), func() {
					vh.Until("handler", unsafe.Pointer(w), func() bool { return w.handler != nil })
					if cancelFirst && i > 0 {
						// the later clients arrive after the first one has given up
						vh.Until("client0 gave up", unsafe.Pointer(w), func() bool { return w.cancelled })
					}
					r := httptest.NewRequest("POST", "/"+tok(i)+"?q="+tok(i), strings.NewReader(bodyFor(i, sizes[i%len(sizes)])))
					r.Header.Set("X-Tok", tok(i))
					// every client carries the same value in the usual correlation headers
					r.Header.Set("X-Request-Id", "same-for-everyone")
					r.Header.Set("X-Correlation-Id", "same-for-everyone")
					if cancelFirst && i == 0 {
						ctx, cancel := vctx.WithCancel(r.Context())
						r = r.WithContext(ctx)
						vs.Go(func() {
							// the first client gives up once the agent has fetched its request
							vh.Until("client0's request was fetched", unsafe.Pointer(w), func() bool {
								for _, t := range w.fetched {
									if t == tok(0) {
										return true
									}
								}
								return false
							})
							cancel()
							vs.Touch(unsafe.Pointer(w))
							w.cancelled = true
						})
					}
					w.handler.ServeHTTP(recs[i], r)
				})
			}
			for j := 0; j < P; j++ {
				j := j
				s.Thread(fmt.Sprintf("poller%d", j), func() {
					vh.Until("handler", unsafe.Pointer(w), func() bool { return w.handler != nil })
					if burst[name] {
						vs.Quiesce()
					}
					first := true
					for {
						vs.Touch(unsafe.Pointer(w))
						if w.served >= K {
							return
						}
						r := httptest.NewRequest("GET", "/agent/pending", nil)
						r.Header.Set(utils.HeaderBackendID, "b")
						if hangUp[name] && j == 0 && first {
							ctx, cancel := vctx.WithCancel(r.Context())
							r = r.WithContext(ctx)
							vs.Go(func() {
								vs.Point("the polling agent hangs up", nil)
								cancel()
							})
						}
						first = false
						rec := vh.NewRec()
						w.handler.ServeHTTP(rec, r)
						var ids []string
						json.Unmarshal(rec.Body.Bytes(), &ids)
						vs.Touch(unsafe.Pointer(w))
						w.lists = append(w.lists, ids)
						w.served += len(ids)
						for _, id := range ids {
							id := id
							vs.Go(func() { worker(w, id) })
						}
					}
				})
			}
			return func(r *vs.Result) vx.Exec { return judge(w, r, recs, K, sizes, cancelFirst) }
		},
	}
}

// worker plays the agent along the wire protocol for one request ID.
func worker(w *world, id string) {
	r := httptest.NewRequest("GET", "/agent/request", nil)
	r.Header.Set(utils.HeaderBackendID, "b")
	r.Header.Set(utils.HeaderRequestID, id)
	rec := vh.NewRec()
	w.handler.ServeHTTP(rec, r)
	if rec.Code != 200 {
		vs.Touch(unsafe.Pointer(w))
		w.fetched[id] = fmt.Sprintf("fetch-status-%d", rec.Code)
		return
	}
	req, body, err := vh.ParseRequest(rec.Body.Bytes())
	if err != nil {
		vs.Touch(unsafe.Pointer(w))
		w.fetched[id] = "fetch-unparsable"
		return
	}
	t := req.Header.Get("X-Tok")
	vs.Touch(unsafe.Pointer(w))
	w.fetched[id] = t
	var n int
	fmt.Sscanf(t, "tok%d", &n)
	payload := "echo:" + req.URL.Path + ":" + string(body)
	var resp bytes.Buffer
	fmt.Fprintf(&resp, "HTTP/1.1 %d Status\r\nX-Tok: %s\r\nX-Path: %s\r\nTrailer: X-Tr\r\nTransfer-Encoding: chunked\r\n\r\n", 200+n%4, t, req.URL.RequestURI())
	if len(payload) > 0 {
		fmt.Fprintf(&resp, "%x\r\n%s\r\n", len(payload), payload)
	}
	// odd requests: only an undeclared trailer (no Trailer field announces it); even ones: a declared
	// and an undeclared one
	if n%2 == 1 {
		resp.Reset()
		fmt.Fprintf(&resp, "HTTP/1.1 %d Status\r\nX-Tok: %s\r\nX-Path: %s\r\nTransfer-Encoding: chunked\r\n\r\n", 200+n%4, t, req.URL.RequestURI())
		if len(payload) > 0 {
			fmt.Fprintf(&resp, "%x\r\n%s\r\n", len(payload), payload)
		}
	}
	fmt.Fprintf(&resp, "0\r\nX-Tr: %s\r\nX-Tu: %s\r\n\r\n", t, t)
	r2 := httptest.NewRequest("POST", "/agent/response", bytes.NewReader(resp.Bytes()))
	r2.Header.Set(utils.HeaderBackendID, "b")
	r2.Header.Set(utils.HeaderRequestID, id)
	w.handler.ServeHTTP(vh.NewRec(), r2)
}

func judge(w *world, r *vs.Result, recs []*vh.Rec, K int, sizes []int, cancelFirst bool) vx.Exec {
	var x vx.Exec
	var obs strings.Builder
	for _, p := range r.Panics {
		x.Violations = append(x.Violations, "PANIC: "+p)
	}
	for _, rc := range r.Races {
		x.Violations = append(x.Violations, fmt.Sprintf("RACE: unsynchronised concurrent use of %s by %s and %s", rc.Object, rc.A, rc.B))
	}
	if r.Exited {
		x.Violations = append(x.Violations, fmt.Sprintf("EXIT: proxy exited with code %d: %v", r.ExitCode, venv.Hooks.FatalLog))
	}
	for _, b := range r.Blocked {
		if cancelFirst && strings.HasPrefix(b.Thread, "client0") {
			continue
		}
		if !b.Daemon && strings.HasPrefix(b.Thread, "client") && len(r.Panics) == 0 && !r.Horizon {
			x.Violations = append(x.Violations, fmt.Sprintf("HANG: %s never received a response (blocked in %s)", b.Thread, b.Op))
		}
	}
	for i, rec := range recs {
		t := tok(i)
		fmt.Fprintf(&obs, "c%d:%d/%s/%s/%s|", i, rec.Code, rec.Hdr.Get("X-Tok"), vh.Short(rec.Body.String()), rec.Trailers().Get("X-Tr"))
		if !rec.Wrote {
			continue // reported as HANG above if the client is blocked
		}
		if cancelFirst && i == 0 {
			continue // the client that gave up may or may not have got its answer in time
		}
		want := "echo:/" + t + ":" + bodyFor(i, sizes[i%len(sizes)])
		if rec.Code != 200+i%4 {
			x.Violations = append(x.Violations, fmt.Sprintf("MIXUP: client %d got status %d, its own response has %d", i, rec.Code, 200+i%4))
		}
		if got := rec.Snapshot.Get("X-Tok"); got != t {
			x.Violations = append(x.Violations, fmt.Sprintf("MIXUP: client %d got header X-Tok=%q, want %q", i, got, t))
		}
		if got := rec.Snapshot.Get("X-Path"); got != "/"+t+"?q="+t {
			x.Violations = append(x.Violations, fmt.Sprintf("MIXUP: client %d: backend saw request target %q", i, got))
		}
		if rec.Body.String() != want {
			x.Violations = append(x.Violations, fmt.Sprintf("MIXUP: client %d got body %q, want %q", i, vh.Short(rec.Body.String()), vh.Short(want)))
		}
		if got := rec.Trailers().Get("X-Tr"); got != t {
			x.Violations = append(x.Violations, fmt.Sprintf("MIXUP: client %d got trailer X-Tr=%q, want %q", i, got, t))
		}
		if got := rec.Trailers().Get("X-Tu"); got != t {
			x.Violations = append(x.Violations, fmt.Sprintf("MIXUP: client %d got the undeclared trailer X-Tu=%q, want %q", i, got, t))
		}
	}
	// C04 (proxy half): every request ID is handed to exactly one list reply.
	seen := map[string]int{}
	total := 0
	for _, l := range w.lists {
		for _, id := range l {
			seen[id]++
			total++
		}
	}
	for id, n := range seen {
		if n > 1 {
			x.Violations = append(x.Violations, fmt.Sprintf("DUPLIST: request id %s… was reported in %d pending-list replies", id[:8], n))
		}
	}
	// each backend response is delivered to at most one client / each id carries one request
	toks := map[string]int{}
	for _, t := range w.fetched {
		toks[t]++
	}
	for t, n := range toks {
		if n > 1 && strings.HasPrefix(t, "tok") {
			x.Violations = append(x.Violations, fmt.Sprintf("DUPFETCH: request %s was handed out under %d different ids", t, n))
		}
	}
	if len(r.Blocked) == 0 || allDaemonOrPollers(r) {
		if total != K && len(x.Violations) == 0 && !r.Horizon && !cancelFirst {
			x.Violations = append(x.Violations, fmt.Sprintf("LOSTID: %d clients but %d ids listed", K, total))
		}
	}
	fmt.Fprintf(&obs, "lists=%d", len(w.lists))
	if r.Horizon {
		obs.WriteString(" horizon")
	}
	x.Obs = obs.String()
	return x
}

func allDaemonOrPollers(r *vs.Result) bool {
	for _, b := range r.Blocked {
		if !b.Daemon && !strings.HasPrefix(b.Thread, "poller") {
			return false
		}
	}
	return true
}

var prop = flag.String("prop", "C01", "property id to report under (C01 or C04: same scenarios, same oracle)")

func main() {
	flag.Parse()
	vx.Main(&vx.Harness{
		Property: *prop, Name: "c01",
		Scenarios: func(tier string) []vx.Scenario {
			if tier == "thorough" {
				return []vx.Scenario{
					scenario("K2P1", 2, 1, []int{0, 5000}, 3),
					scenario("K2P2", 2, 2, []int{1, 0}, 2),
					scenario("K3P1", 3, 1, []int{0, 1, 5000}, 2),
					scenario("K3P2", 3, 2, []int{5000, 0, 1}, 2),
					scenarioC("K2P1-first-client-cancels", 2, 1, []int{10, 10}, 3, true),
					scenarioC("K3P1-first-client-cancels", 3, 1, []int{10, 0, 10}, 0, true),
					scenarioH("K1P2-first-poller-hangs-up", 1, 2, []int{10}, 3),
					scenarioH("K2P2-first-poller-hangs-up", 2, 2, []int{10, 0}, 1),
					scenarioB("K101P1-burst-while-the-agent-is-away", 101, 1, []int{3, 0}),
					scenarioB("K230P2-burst-while-the-agent-is-away", 230, 2, []int{0}),
					scenarioB("K1001P1-burst-while-the-agent-is-away", 1001, 1, []int{0}),
				}
			}
			return []vx.Scenario{
				scenario("K2P1", 2, 1, []int{0, 5000}, 2),
				scenario("K2P2", 2, 2, []int{1, 0}, 1),
				scenarioC("K2P1-first-client-cancels", 2, 1, []int{10, 10}, 2, true),
				scenarioH("K1P2-first-poller-hangs-up", 1, 2, []int{10}, 2),
				scenarioB("K101P1-burst-while-the-agent-is-away", 101, 1, []int{3, 0}),
				scenarioB("K230P2-burst-while-the-agent-is-away", 230, 2, []int{0}),
			}
		},
	})
}
