package main

import (
	"bytes"
	"encoding/json"
	"fmt"
	"strings"
	"time"
	"unsafe"

	"github.com/google/inverting-proxy/app/types"
	"github.com/google/inverting-proxy/zz_verif/vae"
	"github.com/google/inverting-proxy/zz_verif/vs"
	"github.com/google/inverting-proxy/zz_verif/vx"
)

// The universe: two backends; b1 belongs to agent a1 and serves end user u1,
// b2 belongs to agent a2 and serves all users under /s.
const (
	a1 = "agent1@example.com"
	a2 = "agent2@example.com"
	u1 = "user1@example.com"
	u2 = "user2@example.com"
)

type agentCall struct {
	endpoint string // pending, request, response
	caller   string // oauth identity ("" none)
	backend  string
	reqID    string // "R1", "R2", "unknown", ""
}

func (c agentCall) String() string {
	return fmt.Sprintf("%s by %q naming backend %q request %q", c.endpoint, c.caller, c.backend, c.reqID)
}

func allAgentCalls() []agentCall {
	var out []agentCall
	for _, ep := range []string{"pending", "request", "response"} {
		// look-alike identities: a suffix, a prefix, another case, an extra space, a list containing the right one
		for _, who := range []string{"", a1, a2, u1, "admin@example.com", "gent1@example.com", "1@example.com", "agent1@example.co", "AGENT1@example.com", "agent1@example.com ", "x,agent1@example.com", "xagent1@example.com"} {
			for _, b := range []string{"b1", "b2", "nope", ""} {
				for _, r := range []string{"R1", "R2", "unknown", ""} {
					if ep == "pending" && r != "" {
						continue
					}
					out = append(out, agentCall{ep, who, b, r})
				}
			}
		}
	}
	return out
}

type c17World struct {
	ids     map[string]string // R1, R2 -> real request ids
	owner   map[string]string // backend -> agent identity
	reqOf   map[string]string // backend -> R name of its request
	clientR map[string]*reply
	secret  map[string]string
}

// c17Setup registers the backends, lets both agents poll once and puts one end-user request per backend in flight.
func c17Setup(s *vs.Sched, w *c17World, then func()) {
	w.ids = map[string]string{}
	w.owner = map[string]string{"b1": a1, "b2": a2}
	w.reqOf = map[string]string{"b1": "R1", "b2": "R2"}
	w.clientR = map[string]*reply{}
	w.secret = map[string]string{"R1": "secret-of-user1-" + strings.Repeat("x", 20), "R2": "secret-of-user2-" + strings.Repeat("y", 20)}
	vae.Reset()
	ready := 0
	s.Thread("setup", func() {
		addBackend(types.Backend{BackendID: "b1", BackendUser: a1, EndUser: u1, PathPrefixes: []string{"/"}})
		addBackend(types.Backend{BackendID: "b2", BackendUser: a2, EndUser: "allUsers", PathPrefixes: []string{"/s"}})
		vs.Touch(unsafe.Pointer(w))
		ready = 1
	})
	// the agents' first polls make the backends live; they return when the requests show up
	for _, b := range []string{"b1", "b2"} {
		b := b
		s.Thread("poll-"+b, func() {
			vs.Wait("backends added", unsafe.Pointer(w), func() bool { return ready >= 1 })
			r := call(agent(w.owner[b]), "GET", "/agent/pending", agentHdr(b, ""), nil)
			var ids []string
			json.Unmarshal(r.body, &ids)
			vs.Touch(unsafe.Pointer(w))
			if len(ids) == 1 {
				w.ids[w.reqOf[b]] = ids[0]
			}
		})
	}
	s.Thread("client-R1", func() {
		vs.Wait("backends live", unsafe.Pointer(w), func() bool { return ready >= 1 && len(vae.W().Kinds["backendTracker"]) >= 0 })
		vs.Quiesce()
		w.clientR["R1"] = &reply{}
		w.clientR["R1"] = call(endUser(u1), "POST", "/doc", map[string]string{"X-Secret": w.secret["R1"]}, []byte(w.secret["R1"]))
	})
	s.Thread("client-R2", func() {
		vs.Wait("backends live", unsafe.Pointer(w), func() bool { return ready >= 1 })
		vs.Quiesce()
		w.clientR["R2"] = &reply{}
		w.clientR["R2"] = call(endUser(u2), "POST", "/s/doc", map[string]string{"X-Secret": w.secret["R2"]}, []byte(w.secret["R2"]))
	})
	s.Thread("driver", func() {
		vs.Wait("both requests listed", unsafe.Pointer(w), func() bool { return len(w.ids) == 2 })
		vs.Quiesce()
		then()
	})
}

func (w *c17World) do(c agentCall) *reply {
	id := c.reqID
	if real, ok := w.ids[id]; ok {
		id = real
	}
	method := "GET"
	var body []byte
	if c.endpoint == "response" {
		method = "POST"
		body = []byte("HTTP/1.1 200 OK\r\nContent-Length: 6\r\nX-From: " + c.caller + "\r\n\r\nforged")
	}
	return call(who{module: "agent", oauth: c.caller, oauthAdmin: c.caller == "admin@example.com"}, method, "/agent/"+c.endpoint, agentHdr(c.backend, id), body)
}

// leaks reports whether a reply carries anything about a request.
func (w *c17World) leaks(r *reply) string {
	all := string(r.body)
	for k, v := range r.header {
		all += k + ":" + strings.Join(v, ",")
	}
	for name, sec := range w.secret {
		if strings.Contains(all, sec) {
			return "request bytes of " + name
		}
	}
	for _, u := range []string{u1, u2} {
		if strings.Contains(all, u) {
			return "end-user identity " + u
		}
	}
	return ""
}

func c17Single(c agentCall) vx.Scenario {
	return vx.Scenario{Name: "c17/agent/" + c.String(), PB: 0, Single: true, MaxSteps: 200000, MaxTime: 2 * time.Minute,
		Setup: func(s *vs.Sched) func(*vs.Result) vx.Exec {
			w := &c17World{}
			var res *reply
			var before, after string
			var pendingBefore, pendingAfter map[string][]string
			c17Setup(s, w, func() {
				before = vae.W().Dump()
				pendingBefore = w.pendingLists()
				res = w.do(c)
				after = vae.W().Dump()
				pendingAfter = w.pendingLists()
			})
			return func(r *vs.Result) vx.Exec {
				var x vx.Exec
				base(r, &x)
				if res == nil || !res.done {
					if len(r.Panics) == 0 {
						x.Violations = append(x.Violations, "NOANSWER: agent call got no answer: "+c.String()+"; "+blockedList(r))
					}
					return x
				}
				authorised := c.caller != "" && w.owner[c.backend] == c.caller
				x.Obs = fmt.Sprintf("%s -> %d authorised=%v", c.String(), res.status, authorised)
				if !authorised {
					if res.status != 401 {
						x.Violations = append(x.Violations, fmt.Sprintf("UNAUTHORISED-ACCEPTED: %s answered %d, must be 401", c.String(), res.status))
					}
					if l := w.leaks(res); l != "" {
						x.Violations = append(x.Violations, fmt.Sprintf("LEAK: rejected call %s revealed %s", c.String(), l))
					}
					if before != after {
						x.Violations = append(x.Violations, fmt.Sprintf("SIDE-EFFECT: rejected call %s changed the stored data", c.String()))
					}
					// the clients must still be waiting, untouched
					for name, cr := range w.clientR {
						if cr.done && cr.status == 200 {
							x.Violations = append(x.Violations, fmt.Sprintf("SIDE-EFFECT: rejected call %s completed client request %s", c.String(), name))
						}
					}
					return x
				}
				// authorised: may only touch its own backend's request
				own := w.reqOf[c.backend]
				switch c.endpoint {
				case "pending":
					var ids []string
					json.Unmarshal(res.body, &ids)
					if res.status != 200 || len(ids) != 1 || ids[0] != w.ids[own] {
						x.Violations = append(x.Violations, fmt.Sprintf("PENDING: %s answered %d %q, expected exactly its own request", c.String(), res.status, ids))
					}
				case "request":
					if c.reqID == own {
						if res.status != 200 || !bytes.Contains(res.body, []byte(w.secret[own])) {
							x.Violations = append(x.Violations, fmt.Sprintf("FETCH: %s answered %d without the request bytes", c.String(), res.status))
						}
					} else {
						if res.status == 200 {
							x.Violations = append(x.Violations, fmt.Sprintf("CROSS-BACKEND: %s answered 200 for a request that is not its own", c.String()))
						}
						if l := w.leaks(res); l != "" {
							x.Violations = append(x.Violations, fmt.Sprintf("CROSS-BACKEND: %s revealed %s", c.String(), l))
						}
					}
				case "response":
					other := "R1"
					if own == "R1" {
						other = "R2"
					}
					if cr := w.clientR[other]; cr != nil && cr.done && cr.status == 200 {
						x.Violations = append(x.Violations, fmt.Sprintf("CROSS-BACKEND: %s delivered a response to the other backend's client request %s", c.String(), other))
					}
					if c.reqID == own {
						if res.status != 200 {
							x.Violations = append(x.Violations, fmt.Sprintf("RESPOND: %s answered %d", c.String(), res.status))
						}
						if cr := w.clientR[own]; cr == nil || !cr.done || cr.status != 200 || string(cr.body) != "forged" {
							x.Violations = append(x.Violations, fmt.Sprintf("RESPOND: the client of %s did not receive the response posted by its backend's agent", own))
						}
					} else if c.reqID != "" && res.status == 200 {
						x.Violations = append(x.Violations, fmt.Sprintf("CROSS-BACKEND: %s answered 200 for a request that is not its own", c.String()))
					}
					// the other backend's pending list must be unchanged
					ob := "b1"
					if c.backend == "b1" {
						ob = "b2"
					}
					if now := pendingAfter; strings.Join(now[ob], ",") != strings.Join(pendingBefore[ob], ",") {
						x.Violations = append(x.Violations, fmt.Sprintf("CROSS-BACKEND: %s changed the other backend's pending list from %v to %v", c.String(), pendingBefore[ob], now[ob]))
					}
				}
				return x
			}
		}}
}

// pendingLists reads the not-completed requests per backend straight from the store.
func (w *c17World) pendingLists() map[string][]string {
	out := map[string][]string{}
	for kind, ents := range vae.W().Kinds {
		if !strings.HasPrefix(kind, "req:") {
			continue
		}
		for id, e := range ents {
			if done, _ := e.Fields["Completed"].(bool); !done {
				b, _ := e.Fields["BackendID"].(string)
				out[b] = append(out[b], id)
			}
		}
	}
	return out
}

// admin API and end-user routing
func c17Admin() vx.Scenario {
	return vx.Scenario{Name: "c17/admin-and-routing", PB: 0, Single: true, MaxSteps: 500000, MaxTime: 10 * time.Minute,
		Setup: func(s *vs.Sched) func(*vs.Result) vx.Exec {
			var viol []string
			n := 0
			s.Thread("driver", func() {
				vae.Reset()
				addBackend(types.Backend{BackendID: "b1", BackendUser: a1, EndUser: u1, PathPrefixes: []string{"/"}})
				callers := []who{
					{module: "api"}, {module: "api", user: u1}, {module: "api", oauth: a1}, {module: "api", oauth: u1},
					{module: "api", user: "root@example.com", admin: true}, {module: "api", oauth: "root@example.com", oauthAdmin: true},
				}
				js, _ := json.Marshal(types.Backend{BackendID: "evil", BackendUser: "evil@example.com", EndUser: u1, PathPrefixes: []string{"/"}})
				for _, c := range callers {
					isAdmin := c.admin && c.user != "" || c.oauthAdmin
					for _, op := range [][3]string{{"GET", "/api/backends", ""}, {"POST", "/api/backends", string(js)}, {"DELETE", "/api/backends/b1", ""}} {
						before := vae.W().Dump()
						r := call(c, op[0], op[1], nil, []byte(op[2]))
						n++
						if !isAdmin {
							if r.status != 403 {
								viol = append(viol, fmt.Sprintf("ADMIN-OPEN: %s %s by non-administrator %+v answered %d, must be 403", op[0], op[1], c, r.status))
							}
							if vae.W().Dump() != before {
								viol = append(viol, fmt.Sprintf("ADMIN-OPEN: %s %s by non-administrator %+v changed the stored data", op[0], op[1], c))
							}
							if bytes.Contains(r.body, []byte(a1)) || bytes.Contains(r.body, []byte(u1)) {
								viol = append(viol, fmt.Sprintf("ADMIN-OPEN: %s %s by non-administrator %+v revealed backend registrations", op[0], op[1], c))
							}
						} else if r.status != 200 {
							viol = append(viol, fmt.Sprintf("ADMIN-DENIED: %s %s by administrator %+v answered %d", op[0], op[1], c, r.status))
						}
						if isAdmin && op[0] != "GET" {
							// restore
							vae.Reset()
							addBackend(types.Backend{BackendID: "b1", BackendUser: a1, EndUser: u1, PathPrefixes: []string{"/"}})
						}
					}
				}
				// end users without a backend of their own (and no shared one) are never routed to someone else's backend
				call(agent(a1), "GET", "/agent/pending", agentHdr("b1", ""), nil) // b1 is live now
				r := call(endUser(u2), "GET", "/doc", nil, nil)
				n++
				if r.status != 404 {
					viol = append(viol, fmt.Sprintf("FOREIGN-ROUTE: %s requested /doc and was answered %d; the only backend belongs to %s", u2, r.status, u1))
				}
				if len(w17pending()) > 0 {
					viol = append(viol, fmt.Sprintf("FOREIGN-ROUTE: a request of %s was stored for a backend of %s", u2, u1))
				}
				r = call(who{module: "default"}, "GET", "/doc", nil, nil)
				n++
				if r.status != 401 {
					viol = append(viol, fmt.Sprintf("ANONYMOUS: a request without a signed-in user was answered %d", r.status))
				}
			})
			return func(r *vs.Result) vx.Exec {
				var x vx.Exec
				base(r, &x)
				x.Violations = append(x.Violations, viol...)
				x.Obs = fmt.Sprintf("%d admin/routing calls", n)
				return x
			}
		}}
}

func w17pending() []string {
	var out []string
	for kind, ents := range vae.W().Kinds {
		if strings.HasPrefix(kind, "req:") {
			for id := range ents {
				out = append(out, id)
			}
		}
	}
	return out
}

// c17Pair: two agent calls one after the other (order matters: e.g. a legitimate fetch first, then a foreign one).
func c17Pair(c1, c2 agentCall) vx.Scenario {
	return vx.Scenario{Name: "c17/pair/" + c1.String() + " ; " + c2.String(), PB: 0, Single: true, MaxSteps: 200000, MaxTime: 2 * time.Minute,
		Setup: func(s *vs.Sched) func(*vs.Result) vx.Exec {
			w := &c17World{}
			var r2 *reply
			var before, after string
			c17Setup(s, w, func() {
				w.do(c1)
				before = vae.W().Dump()
				r2 = w.do(c2)
				after = vae.W().Dump()
			})
			return func(r *vs.Result) vx.Exec {
				var x vx.Exec
				base(r, &x)
				if r2 == nil || !r2.done {
					return x
				}
				authorised := c2.caller != "" && w.owner[c2.backend] == c2.caller
				x.Obs = fmt.Sprintf("%s ; %s -> %d", c1.String(), c2.String(), r2.status)
				if !authorised {
					if r2.status != 401 {
						x.Violations = append(x.Violations, fmt.Sprintf("UNAUTHORISED-ACCEPTED: after [%s], %s answered %d, must be 401", c1.String(), c2.String(), r2.status))
					}
					if l := w.leaks(r2); l != "" {
						x.Violations = append(x.Violations, fmt.Sprintf("LEAK: after [%s], rejected call %s revealed %s", c1.String(), c2.String(), l))
					}
					if before != after {
						x.Violations = append(x.Violations, fmt.Sprintf("SIDE-EFFECT: after [%s], rejected call %s changed the stored data", c1.String(), c2.String()))
					}
				} else if c2.endpoint == "request" && c2.reqID != w.reqOf[c2.backend] {
					if r2.status == 200 || w.leaks(r2) != "" {
						x.Violations = append(x.Violations, fmt.Sprintf("CROSS-BACKEND: after [%s], %s answered %d / revealed %q", c1.String(), c2.String(), r2.status, w.leaks(r2)))
					}
				}
				return x
			}
		}}
}

// c17Reassign: the administrator re-registers (or deletes) a backend between two calls of its former agent.
func c17Reassign(ep string, how string) vx.Scenario {
	return vx.Scenario{Name: fmt.Sprintf("c17/reassign/%s/%s", how, ep), PB: 0, Single: true, MaxSteps: 200000, MaxTime: 2 * time.Minute,
		Setup: func(s *vs.Sched) func(*vs.Result) vx.Exec {
			w := &c17World{}
			var r1, r2, r3 *reply
			c17Setup(s, w, func() {
				c := agentCall{ep, a1, "b1", "R1"}
				if ep == "pending" {
					c.reqID = ""
				}
				if ep == "response" {
					// keep R1 pending for the second round: answer nothing yet, just authenticate with a fetch
					r1 = w.do(agentCall{"request", a1, "b1", "R1"})
				} else {
					r1 = w.do(c)
				}
				switch how {
				case "readd":
					addBackend(types.Backend{BackendID: "b1", BackendUser: a2, EndUser: u1, PathPrefixes: []string{"/"}})
				case "delete":
					call(admin, "DELETE", "/api/backends/b1", nil, nil)
				}
				r2 = w.do(c)
				// the new owner is accepted
				if how == "readd" {
					c.caller = a2
					r3 = w.do(c)
				}
			})
			return func(r *vs.Result) vx.Exec {
				var x vx.Exec
				base(r, &x)
				if r1 == nil || r2 == nil || !r2.done {
					return x
				}
				x.Obs = fmt.Sprintf("%s %s: before %d, after %d", how, ep, r1.status, r2.status)
				if r1.status != 200 {
					x.Violations = append(x.Violations, fmt.Sprintf("SETUP: the registered agent's %s call answered %d", ep, r1.status))
				}
				if r2.status != 401 {
					x.Violations = append(x.Violations, fmt.Sprintf("STALE-AUTH: after the administrator %s backend b1, its former agent's %s call answered %d, must be 401", map[string]string{"readd": "re-registered (to another agent)", "delete": "deleted"}[how], ep, r2.status))
				}
				if l := w.leaks(r2); l != "" {
					x.Violations = append(x.Violations, fmt.Sprintf("STALE-AUTH: the former agent's %s call revealed %s", ep, l))
				}
				if r3 != nil && r3.done && r3.status == 401 {
					x.Violations = append(x.Violations, fmt.Sprintf("NEW-OWNER-REJECTED: the newly registered agent's %s call answered 401", ep))
				}
				return x
			}
		}}
}

func c17Scenarios(th bool) []vx.Scenario {
	var out []vx.Scenario
	calls := allAgentCalls()
	for _, c := range calls {
		out = append(out, c17Single(c))
	}
	out = append(out, c17Admin())
	for _, ep := range []string{"pending", "request", "response"} {
		out = append(out, c17Reassign(ep, "readd"), c17Reassign(ep, "delete"))
	}
	cpb := 2
	if th {
		cpb = 3
	}
	out = append(out, c17ConcFetch("request", cpb), c17ConcFetch("pending", cpb))
	out = append(out, c17FaultScenarios(th)...)
	for _, n := range []int{20, 180, 215, 260, 600} {
		out = append(out, c17LongURL(n))
	}
	// pairs: a legitimate call first (which fills caches), then every foreign / cross-backend call
	legit := []agentCall{{"request", a1, "b1", "R1"}, {"request", a2, "b2", "R2"}, {"pending", a1, "b1", ""}, {"response", a1, "b1", "R1"}}
	for _, l := range legit {
		for _, c := range calls {
			if c.caller == "" && !th {
				continue
			}
			if c.endpoint == "pending" && !th {
				continue
			}
			out = append(out, c17Pair(l, c))
		}
	}
	return out
}
