package main

import (
	"context"
	"fmt"
	"strings"
	"time"

	"github.com/google/inverting-proxy/app/cache"
	"github.com/google/inverting-proxy/app/store"
	"github.com/google/inverting-proxy/app/types"
	"github.com/google/inverting-proxy/zz_verif/vae"
	"github.com/google/inverting-proxy/zz_verif/vs"
	"github.com/google/inverting-proxy/zz_verif/vtime"
	"github.com/google/inverting-proxy/zz_verif/vx"
)

type bspec struct {
	user     string
	prefixes []string
	age      time.Duration // -1: the agent never polled
}

var c18Users = []string{"u@example.com", "v@example.com", "allUsers"}
var c18Prefixes = [][]string{{""}, {"/"}, {"/a"}, {"/a/"}, {"/a/b"}, {"/ab"}, {"/", "/a/b"}, {"/a/b", "/"}, {"/a", "/ab"}, {"", "/a/"}}
var c18Ages = []time.Duration{-1, 0, 4*time.Minute + 59*time.Second, 5 * time.Minute, 5*time.Minute + time.Second}
var c18Lookers = []string{"u@example.com", "v@example.com", "w@example.com"}
var c18Paths = []string{"/", "/a", "/a/b/c", "/ab", "/b"}

func specMenu(th bool) []bspec {
	var m []bspec
	for _, u := range c18Users {
		for _, p := range c18Prefixes {
			for _, a := range c18Ages {
				m = append(m, bspec{u, p, a})
			}
		}
	}
	return m
}

// small menu for the third backend
func thirdMenu() []bspec {
	return []bspec{
		{"u@example.com", []string{"/a/b"}, 0}, {"u@example.com", []string{"/"}, 5 * time.Minute}, {"allUsers", []string{"/a"}, 0},
		{"allUsers", []string{""}, -1}, {"v@example.com", []string{"/a/b", "/"}, 0}, {"allUsers", []string{"/a/b"}, 4*time.Minute + 59*time.Second},
	}
}

// expected result from the statement: set of acceptable answers ("" = 404)
func c18Expected(bs []bspec, user, path string) map[string]bool {
	best := func(owner string) (winners []int, plen int) {
		plen = -1
		for i, b := range bs {
			if b.user != owner {
				continue
			}
			for _, p := range b.prefixes {
				if strings.HasPrefix(path, p) {
					if len(p) > plen {
						plen = len(p)
						winners = []int{i}
					} else if len(p) == plen {
						dup := false
						for _, w := range winners {
							dup = dup || w == i
						}
						if !dup {
							winners = append(winners, i)
						}
					}
				}
			}
		}
		return
	}
	w, _ := best(user)
	if len(w) == 0 {
		w, _ = best("allUsers")
	}
	ok := map[string]bool{}
	if len(w) == 0 {
		ok[""] = true
		return ok
	}
	for _, i := range w {
		if bs[i].age >= 0 && bs[i].age < 5*time.Minute {
			ok[fmt.Sprintf("b%d", i)] = true
		} else {
			ok[""] = true
		}
	}
	return ok
}

// runConfig builds the configuration in the given insertion order and answers every lookup.
func runConfig(bs []bspec, order []int) map[string]string {
	vae.Reset()
	s := cache.NewCachingStore(store.NewPersistentStore())
	ctx := context.Background()
	for _, i := range order {
		b := bs[i]
		s.AddBackend(ctx, &types.Backend{BackendID: fmt.Sprintf("b%d", i), BackendUser: fmt.Sprintf("agent%d@example.com", i), EndUser: b.user, PathPrefixes: b.prefixes})
	}
	// polls, oldest first, so that every backend has exactly its age at lookup time
	idx := append([]int{}, order...)
	for i := range idx {
		for j := i + 1; j < len(idx); j++ {
			if bs[idx[j]].age > bs[idx[i]].age {
				idx[i], idx[j] = idx[j], idx[i]
			}
		}
	}
	var prev time.Duration = -1
	for _, i := range idx {
		a := bs[i].age
		if a < 0 {
			continue
		}
		if prev >= 0 && prev > a {
			vtime.Sleep(prev - a)
		}
		s.ListPendingRequests(ctx, fmt.Sprintf("b%d", i))
		prev = a
	}
	if prev > 0 {
		vtime.Sleep(prev)
	}
	res := map[string]string{}
	for _, u := range c18Lookers {
		for _, p := range c18Paths {
			id, err := s.LookupBackend(ctx, u, p)
			if err != nil {
				id = ""
			}
			res[u+" "+p] = id
		}
	}
	return res
}

func c18Batch(name string, configs [][]bspec) vx.Scenario {
	return vx.Scenario{Name: name, PB: 0, Single: true, MaxSteps: 50000000, MaxTime: 1000000 * time.Hour,
		Setup: func(s *vs.Sched) func(*vs.Result) vx.Exec {
			var viol []string
			routed, total := 0, 0
			s.Thread("driver", func() {
				for _, bs := range configs {
					fw := make([]int, len(bs))
					rv := make([]int, len(bs))
					for i := range bs {
						fw[i], rv[i] = i, len(bs)-1-i
					}
					got := runConfig(bs, fw)
					got2 := got
					if len(bs) > 1 {
						got2 = runConfig(bs, rv)
					}
					for k, id := range got {
						parts := strings.SplitN(k, " ", 2)
						exp := c18Expected(bs, parts[0], parts[1])
						total++
						if id != "" {
							routed++
						}
						if !exp[id] && len(viol) < 5 {
							viol = append(viol, fmt.Sprintf("MISROUTED: backends %s: request of %s for %s was routed to %q, the statement allows %v", descr(bs), parts[0], parts[1], id, keys(exp)))
						}
						if id2 := got2[k]; id2 != id && !(exp[id] && exp[id2] && len(exp) > 1) && len(viol) < 5 {
							viol = append(viol, fmt.Sprintf("ORDERDEPENDENT: backends %s: request of %s for %s is routed to %q or %q depending on registration order", descr(bs), parts[0], parts[1], id, id2))
						}
					}
				}
			})
			return func(r *vs.Result) vx.Exec {
				var x vx.Exec
				base(r, &x)
				x.Violations = append(x.Violations, viol...)
				if len(r.Blocked) > 0 && len(r.Panics) == 0 {
					x.Violations = append(x.Violations, "HANG: "+blockedList(r))
				}
				x.Obs = fmt.Sprintf("%s: %d configurations, %d lookups, %d routed", name, len(configs), total, routed)
				return x
			}
		}}
}

func descr(bs []bspec) string {
	var p []string
	for i, b := range bs {
		age := "never"
		if b.age >= 0 {
			age = b.age.String()
		}
		p = append(p, fmt.Sprintf("b%d{%s %q seen %s ago}", i, b.user, b.prefixes, age))
	}
	return strings.Join(p, " ")
}

func keys(m map[string]bool) []string {
	var k []string
	for s := range m {
		if s == "" {
			s = "404"
		}
		k = append(k, s)
	}
	return k
}

func c18Scenarios(th bool) []vx.Scenario {
	menu := specMenu(th)
	var all [][]bspec
	for _, a := range menu {
		all = append(all, []bspec{a})
	}
	for _, a := range menu {
		for _, b := range menu {
			all = append(all, []bspec{a, b})
		}
	}
	tm := thirdMenu()
	for i, a := range menu {
		for j, b := range menu {
			if (i*7+j)%29 != 0 && !th || th && (i+j)%3 != 0 {
				continue
			}
			for k, c := range tm {
				if !th && (i+j+k)%2 != 0 {
					continue
				}
				all = append(all, []bspec{a, b, c})
			}
		}
	}
	var out []vx.Scenario
	const batch = 200
	for i := 0; i < len(all); i += batch {
		j := i + batch
		if j > len(all) {
			j = len(all)
		}
		out = append(out, c18Batch(fmt.Sprintf("c18/configs%06d-%06d", i, j), all[i:j]))
	}
	return out
}
