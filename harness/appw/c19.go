package main

import (
	"bufio"
	"bytes"
	"context"
	"encoding/json"
	"errors"
	"fmt"
	"io"
	"net/http"
	"sort"
	"strings"
	"time"
	"unsafe"

	"github.com/google/inverting-proxy/app/cache"
	"github.com/google/inverting-proxy/app/store"
	"github.com/google/inverting-proxy/app/types"
	"github.com/google/inverting-proxy/zz_verif/vae"
	"github.com/google/inverting-proxy/zz_verif/vs"
	"github.com/google/inverting-proxy/zz_verif/vx"
)

func payload(tag byte, n int) []byte {
	b := make([]byte, n)
	for i := range b {
		b[i] = byte('a' + (i*7+int(tag)+i/997)%26)
	}
	return b
}

type c19Client struct {
	name   string
	path   string
	body   []byte
	res    *reply
	posted []byte // what the agent posted for it
}

func registerLive(s *vs.Sched, backends []types.Backend, owners map[string]string) {
	vae.Reset()
	for _, b := range backends {
		addBackend(b)
	}
}

// listUntil polls the pending list of backend b (as its agent) until it reports n ids.
func listUntil(owner, b string, n int) []string {
	for i := 0; i < 5; i++ {
		r := call(agent(owner), "GET", "/agent/pending", agentHdr(b, ""), nil)
		var ids []string
		json.Unmarshal(r.body, &ids)
		if len(ids) >= n {
			return ids
		}
	}
	return nil
}

func wireResponse(status int, body []byte, tag string) []byte {
	return append([]byte(fmt.Sprintf("HTTP/1.1 %d OK\r\nContent-Length: %d\r\nX-Resp-For: %s\r\nCache-Control: no-store\r\n\r\n", status, len(body), tag)), body...)
}

// matchRequest parses fetched bytes and checks them against what the client sent.
func matchRequest(fetched []byte, c *c19Client) string {
	req, err := http.ReadRequest(bufio.NewReader(bytes.NewReader(fetched)))
	if err != nil {
		return "fetched bytes are not an HTTP request: " + err.Error()
	}
	b, err := io.ReadAll(req.Body)
	if err != nil {
		return "fetched request body unreadable: " + err.Error()
	}
	if req.Method != "POST" || req.URL.RequestURI() != c.path {
		return fmt.Sprintf("fetched request line %s %s, client sent POST %s", req.Method, req.URL.RequestURI(), c.path)
	}
	if req.Header.Get("X-Client") != c.name {
		return fmt.Sprintf("fetched header X-Client=%q, client sent %q", req.Header.Get("X-Client"), c.name)
	}
	if !bytes.Equal(b, c.body) {
		return fmt.Sprintf("fetched body has %d bytes (first difference at %d), client sent %d", len(b), firstDiff(b, c.body), len(c.body))
	}
	return ""
}

func firstDiff(a, b []byte) int {
	n := len(a)
	if len(b) < n {
		n = len(b)
	}
	for i := 0; i < n; i++ {
		if a[i] != b[i] {
			return i
		}
	}
	return n
}

// c19Sizes: one request/response cycle with the given body sizes.
func c19Sizes(reqN, respN int, lateFetch bool) vx.Scenario {
	name := fmt.Sprintf("c19/sizes/req%d/resp%d/latefetch=%v", reqN, respN, lateFetch)
	return vx.Scenario{Name: name, PB: 0, Single: true, MaxSteps: 400000, MaxTime: 5 * time.Minute,
		Setup: func(s *vs.Sched) func(*vs.Result) vx.Exec {
			var viol []string
			c := &c19Client{name: "c1", path: "/doc?x=1", body: payload(1, reqN)}
			respBody := payload(2, respN)
			var pendingAfter []string
			started := false
			s.Thread("client", func() {
				vs.Wait("backend registered", unsafe.Pointer(c), func() bool { return started })
				c.res = &reply{}
				c.res = call(endUser(u1), "POST", c.path, map[string]string{"X-Client": c.name}, c.body)
			})
			s.Thread("agent", func() {
				vae.Reset()
				addBackend(types.Backend{BackendID: "b1", BackendUser: a1, EndUser: u1, PathPrefixes: []string{"/"}})
				call(agent(a1), "GET", "/agent/pending", agentHdr("b1", ""), nil) // registers the agent as seen; returns [] after the poll timeout
				vs.Touch(unsafe.Pointer(c))
				started = true
				ids := listUntil(a1, "b1", 1)
				if len(ids) != 1 {
					viol = append(viol, fmt.Sprintf("NOTLISTED: the client's request (%d byte body) never showed up in the pending list: %v", reqN, ids))
					return
				}
				f := call(agent(a1), "GET", "/agent/request", agentHdr("b1", ids[0]), nil)
				if f.status != 200 {
					viol = append(viol, fmt.Sprintf("FETCH: fetching the request (%d byte body) answered %d: %s", reqN, f.status, clip(string(f.body))))
					return
				}
				if why := matchRequest(f.body, c); why != "" {
					viol = append(viol, "REQUEST-ALTERED: "+why)
				}
				if f.header.Get("X-Inverting-Proxy-User-ID") != u1 {
					viol = append(viol, fmt.Sprintf("USERID: fetch reported user %q, the request is %s's", f.header.Get("X-Inverting-Proxy-User-ID"), u1))
				}
				p := call(agent(a1), "POST", "/agent/response", agentHdr("b1", ids[0]), wireResponse(200, respBody, "c1"))
				if p.status != 200 {
					viol = append(viol, fmt.Sprintf("RESPOND: posting a %d byte response answered %d: %s", respN, p.status, clip(string(p.body))))
				}
				vs.Quiesce()
				// a completed request is no longer pending
				r := call(agent(a1), "GET", "/agent/pending", agentHdr("b1", ""), nil)
				json.Unmarshal(r.body, &pendingAfter)
				if lateFetch {
					// a slower poller that saw the id earlier fetches now: still the client's exact request
					f2 := call(agent(a1), "GET", "/agent/request", agentHdr("b1", ids[0]), nil)
					if f2.status == 200 {
						if why := matchRequest(f2.body, c); why != "" {
							viol = append(viol, "REQUEST-ALTERED (fetched after the response was posted): "+why)
						}
					}
				}
			})
			return func(r *vs.Result) vx.Exec {
				var x vx.Exec
				base(r, &x)
				x.Violations = append(x.Violations, viol...)
				for _, b := range r.Blocked {
					if len(r.Panics) == 0 {
						x.Violations = append(x.Violations, fmt.Sprintf("HANG: %s never returned: %s", b.Thread, b.Op))
					}
				}
				if c.res != nil && c.res.done && len(viol) == 0 {
					if c.res.status != 200 || !bytes.Equal(c.res.body, respBody) || c.res.header.Get("X-Resp-For") != "c1" {
						x.Violations = append(x.Violations, fmt.Sprintf("RESPONSE-ALTERED: client received status %d and %d body bytes (first difference at %d); the agent posted 200 and %d bytes", c.res.status, len(c.res.body), firstDiff(c.res.body, respBody), len(respBody)))
					}
				}
				if len(pendingAfter) > 0 {
					x.Violations = append(x.Violations, fmt.Sprintf("STILLPENDING: the completed request is still listed as pending: %v", pendingAfter))
				}
				st := -1
				if c.res != nil {
					st = c.res.status
				}
				x.Obs = fmt.Sprintf("req %d resp %d -> client %d", reqN, respN, st)
				return x
			}
		}}
}

func clip(s string) string {
	if len(s) > 120 {
		return s[:120] + "…"
	}
	return s
}

// c19Conc: K clients of one or two backends; agents answer in a scripted order.
func c19Conc(name string, twoBackends bool, order []string, pb int) vx.Scenario {
	// a client that is never answered polls the store 300 times before its 504: those runs
	// are long and their outcome is schedule-independent, so they use the default schedule only
	answered := 0
	for _, o := range order {
		if o == "c1" || o == "c2" {
			answered++
		}
		if o == "both" {
			answered += 2
		}
	}
	return vx.Scenario{Name: "c19/conc/" + name, PB: pb, Delay: true, NoPost: true, Single: answered < 2 || pb == 0, MaxSteps: 400000, MaxTime: 5 * time.Minute,
		Setup: func(s *vs.Sched) func(*vs.Result) vx.Exec {
			cl := []*c19Client{{name: "c1", path: "/one", body: payload(1, 10)}, {name: "c2", path: "/s/two", body: payload(2, 20)}}
			backendOf := map[string]string{"c1": "b1", "c2": "b1"}
			users := map[string]string{"c1": u1, "c2": u1}
			if twoBackends {
				backendOf["c2"] = "b2"
				users["c2"] = u2
			}
			owner := map[string]string{"b1": a1, "b2": a2}
			var viol []string
			started := false
			var wrongAgent *reply
			for _, c := range cl {
				c := c
				s.Thread("client-"+c.name, func() {
					vs.Wait("backends registered", unsafe.Pointer(&started), func() bool { return started })
					c.res = &reply{}
					c.res = call(endUser(users[c.name]), "POST", c.path, map[string]string{"X-Client": c.name}, c.body)
				})
			}
			s.Thread("agents", func() {
				vae.Reset()
				addBackend(types.Backend{BackendID: "b1", BackendUser: a1, EndUser: u1, PathPrefixes: []string{"/"}})
				if twoBackends {
					addBackend(types.Backend{BackendID: "b2", BackendUser: a2, EndUser: "allUsers", PathPrefixes: []string{"/s"}})
					call(agent(a2), "GET", "/agent/pending", agentHdr("b2", ""), nil)
				}
				call(agent(a1), "GET", "/agent/pending", agentHdr("b1", ""), nil)
				vs.Touch(unsafe.Pointer(&started))
				started = true
				// learn which id is whose
				idOf := map[string]string{}
				for tries := 0; tries < 6 && len(idOf) < 2; tries++ {
					for _, b := range []string{"b1", "b2"} {
						o := owner[b]
						if b == "b2" && !twoBackends {
							continue
						}
						r := call(agent(o), "GET", "/agent/pending", agentHdr(b, ""), nil)
						var ids []string
						json.Unmarshal(r.body, &ids)
						for _, id := range ids {
							f := call(agent(o), "GET", "/agent/request", agentHdr(b, id), nil)
							for _, c := range cl {
								if f.status == 200 && matchRequest(f.body, c) == "" {
									idOf[c.name] = id
								}
							}
						}
					}
				}
				if len(idOf) < 2 {
					viol = append(viol, fmt.Sprintf("NOTLISTED: only %d of 2 in-flight requests could be fetched intact", len(idOf)))
					return
				}
				for _, step := range order {
					switch step {
					case "c1", "c2":
						b := backendOf[step]
						for _, c := range cl {
							if c.name == step {
								c.posted = payload(byte(len(step)+int(step[1])), 30)
								p := call(agent(owner[b]), "POST", "/agent/response", agentHdr(b, idOf[step]), wireResponse(200, c.posted, step))
								if p.status != 200 {
									viol = append(viol, fmt.Sprintf("RESPOND: response for %s answered %d", step, p.status))
								}
							}
						}
					case "both":
						// the two responses are posted at the same time (two agents, or two workers of one agent)
						doneN := 0
						for _, c := range cl {
							c := c
							c.posted = payload(byte(7+int(c.name[1])), 3000)
							vs.Go(func() {
								b := backendOf[c.name]
								p := call(agent(owner[b]), "POST", "/agent/response", agentHdr(b, idOf[c.name]), wireResponse(200, c.posted, c.name))
								vs.Touch(unsafe.Pointer(&started))
								if p.status != 200 {
									viol = append(viol, fmt.Sprintf("RESPOND: response for %s answered %d", c.name, p.status))
								}
								doneN++
							})
						}
						vs.Wait("both responses posted", unsafe.Pointer(&started), func() bool { return doneN == 2 })
					case "wrong":
						// the other backend's agent tries to answer c1
						wrongAgent = call(agent(a2), "POST", "/agent/response", agentHdr("b2", idOf["c1"]), wireResponse(200, []byte("forged"), "forged"))
					}
				}
			})
			return func(r *vs.Result) vx.Exec {
				var x vx.Exec
				base(r, &x)
				x.Violations = append(x.Violations, viol...)
				for _, b := range r.Blocked {
					if len(r.Panics) == 0 {
						x.Violations = append(x.Violations, fmt.Sprintf("HANG: %s never returned: %s", b.Thread, b.Op))
					}
				}
				var obs []string
				for _, c := range cl {
					if c.res == nil || !c.res.done {
						continue
					}
					obs = append(obs, fmt.Sprintf("%s:%d", c.name, c.res.status))
					if c.posted != nil {
						if c.res.status != 200 || !bytes.Equal(c.res.body, c.posted) || c.res.header.Get("X-Resp-For") != c.name {
							x.Violations = append(x.Violations, fmt.Sprintf("WRONG-RESPONSE: client %s received status %d, X-Resp-For=%q, %d bytes; its own response is 200 with %d bytes", c.name, c.res.status, c.res.header.Get("X-Resp-For"), len(c.res.body), len(c.posted)))
						}
					} else if c.res.status != 504 {
						x.Violations = append(x.Violations, fmt.Sprintf("NO504: no response was posted for client %s but it was answered %d (%q)", c.name, c.res.status, clip(string(c.res.body))))
					}
				}
				if wrongAgent != nil && wrongAgent.status == 200 && twoBackends {
					x.Violations = append(x.Violations, "FOREIGN-AGENT: the other backend's agent could post a response for this backend's request")
				}
				x.Obs = strings.Join(obs, " ")
				return x
			}
		}}
}

// c19Fault: one request/response cycle with the given service calls failing.
func c19Fault(fail []int) vx.Scenario {
	return vx.Scenario{Name: fmt.Sprintf("c19/fault/%v", fail), PB: 0, Single: true, MaxSteps: 400000, MaxTime: 5 * time.Minute,
		Setup: func(s *vs.Sched) func(*vs.Result) vx.Exec {
			c := &c19Client{name: "c1", path: "/doc", body: payload(1, 50)}
			var statuses []string
			started := false
			stillPending := false
			nops := 0
			s.Thread("client", func() {
				vs.Wait("backend registered", unsafe.Pointer(c), func() bool { return started })
				c.res = &reply{}
				c.res = call(endUser(u1), "POST", c.path, map[string]string{"X-Client": c.name}, c.body)
			})
			s.Thread("agent", func() {
				vae.Reset()
				addBackend(types.Backend{BackendID: "b1", BackendUser: a1, EndUser: u1, PathPrefixes: []string{"/"}})
				call(agent(a1), "GET", "/agent/pending", agentHdr("b1", ""), nil)
				// faults start now: they hit the cycle itself, not the set-up
				w := vae.W()
				w.Fault = func(op vae.Op) error {
					k := nops
					nops++
					for _, f := range fail {
						if f == k {
							return errors.New("injected: service unavailable")
						}
					}
					return nil
				}
				vs.Touch(unsafe.Pointer(c))
				started = true
				ids := listUntil(a1, "b1", 1)
				if len(ids) == 0 {
					statuses = append(statuses, "notlisted")
					return
				}
				f := call(agent(a1), "GET", "/agent/request", agentHdr("b1", ids[0]), nil)
				statuses = append(statuses, fmt.Sprintf("fetch:%d", f.status))
				p := &reply{}
				statuses = append(statuses, "respond:pending")
				p = call(agent(a1), "POST", "/agent/response", agentHdr("b1", ids[0]), wireResponse(200, []byte("resp"), "c1"))
				statuses[len(statuses)-1] = fmt.Sprintf("respond:%d", p.status)
				if p.status != 200 {
					// the agent tries again (its upload is retried, or its next poll lists the request once more)
					statuses = append(statuses, "respond-again:pending")
					p = call(agent(a1), "POST", "/agent/response", agentHdr("b1", ids[0]), wireResponse(200, []byte("resp"), "c1"))
					statuses[len(statuses)-1] = fmt.Sprintf("respond-again:%d", p.status)
				}
				if p.status == 200 {
					// a request whose response was accepted is no longer pending
					w.Fault = nil
					l := call(agent(a1), "GET", "/agent/pending", agentHdr("b1", ""), nil)
					var left []string
					json.Unmarshal(l.body, &left)
					for _, id := range left {
						if id == ids[0] {
							stillPending = true
						}
					}
					statuses = append(statuses, fmt.Sprintf("pending-after:%v", left))
				}
			})
			return func(r *vs.Result) vx.Exec {
				var x vx.Exec
				base(r, &x)
				for _, b := range r.Blocked {
					if len(r.Panics) == 0 {
						x.Violations = append(x.Violations, fmt.Sprintf("HANG: with service calls %v of the cycle failing, %s never returned: %s (progress: %v)", fail, b.Thread, b.Op, statuses))
					}
				}
				if c.res != nil && c.res.done {
					switch c.res.status {
					case 200:
						if string(c.res.body) != "resp" {
							x.Violations = append(x.Violations, fmt.Sprintf("WRONG-RESPONSE: client got 200 with %q under faults %v", clip(string(c.res.body)), fail))
						}
					case 404, 500, 504:
					default:
						x.Violations = append(x.Violations, fmt.Sprintf("STATUS: client answered %d under faults %v", c.res.status, fail))
					}
				}
				if stillPending {
					x.Violations = append(x.Violations, fmt.Sprintf("STILL-PENDING: the agent's response was accepted (%v) but the request is still listed as pending afterwards (faults %v)", statuses, fail))
				}
				st := -1
				if c.res != nil {
					st = c.res.status
				}
				x.Obs = fmt.Sprintf("faults %v: %v client:%d ops:%d", fail, statuses, st, nops)
				return x
			}
		}}
}

// c19Outage: from the k-th service call of the cycle on every call fails (an outage that outlasts the
// response deadline): every participant must still be answered.
func c19Outage(k int) vx.Scenario {
	return vx.Scenario{Name: fmt.Sprintf("c19/outage-from/%d", k), PB: 0, Single: true, MaxSteps: 400000, MaxTime: 10 * time.Minute,
		Setup: func(s *vs.Sched) func(*vs.Result) vx.Exec {
			c := &c19Client{name: "c1", path: "/doc", body: payload(1, 50)}
			var statuses []string
			started := false
			nops := 0
			var elapsed time.Duration
			s.Thread("client", func() {
				vs.Wait("backend registered", unsafe.Pointer(c), func() bool { return started })
				c.res = &reply{}
				t0 := s.Now()
				r := call(endUser(u1), "POST", c.path, map[string]string{"X-Client": c.name}, c.body)
				elapsed = s.Now() - t0
				c.res = r
			})
			s.Thread("agent", func() {
				vae.Reset()
				addBackend(types.Backend{BackendID: "b1", BackendUser: a1, EndUser: u1, PathPrefixes: []string{"/"}})
				call(agent(a1), "GET", "/agent/pending", agentHdr("b1", ""), nil)
				w := vae.W()
				w.Fault = func(op vae.Op) error {
					i := nops
					nops++
					if i >= k {
						return errors.New("injected: service unavailable")
					}
					return nil
				}
				vs.Touch(unsafe.Pointer(c))
				started = true
				ids := listUntil(a1, "b1", 1)
				if len(ids) == 0 {
					statuses = append(statuses, "notlisted")
					return
				}
				f := call(agent(a1), "GET", "/agent/request", agentHdr("b1", ids[0]), nil)
				statuses = append(statuses, fmt.Sprintf("fetch:%d", f.status))
				statuses = append(statuses, "respond:pending")
				p := call(agent(a1), "POST", "/agent/response", agentHdr("b1", ids[0]), wireResponse(200, []byte("resp"), "c1"))
				statuses[len(statuses)-1] = fmt.Sprintf("respond:%d", p.status)
			})
			return func(r *vs.Result) vx.Exec {
				var x vx.Exec
				base(r, &x)
				for _, b := range r.Blocked {
					if len(r.Panics) == 0 {
						x.Violations = append(x.Violations, fmt.Sprintf("HANG: with every service call from number %d of the cycle on failing, %s never returned: %s (progress: %v)", k, b.Thread, b.Op, statuses))
					}
				}
				if r.Horizon && len(x.Violations) == 0 {
					x.Violations = append(x.Violations, fmt.Sprintf("HANG: with every service call from number %d of the cycle on failing, the run did not end within the step bound (progress: %v)", k, statuses))
				}
				st := -1
				if c.res != nil && c.res.done {
					st = c.res.status
					switch st {
					case 200:
						if string(c.res.body) != "resp" {
							x.Violations = append(x.Violations, fmt.Sprintf("WRONG-RESPONSE: client got 200 with %q during an outage from call %d", clip(string(c.res.body)), k))
						}
					case 404, 500, 504:
					default:
						x.Violations = append(x.Violations, fmt.Sprintf("STATUS: client answered %d during an outage from call %d", st, k))
					}
					if elapsed > 40*time.Second {
						x.Violations = append(x.Violations, fmt.Sprintf("LATE: the client was only answered after %v during an outage from call %d (the response deadline is 30 s)", elapsed, k))
					}
				}
				x.Obs = fmt.Sprintf("outage from %d: %v client:%d after %v ops:%d", k, statuses, st, elapsed, nops)
				return x
			}
		}}
}

// c19Store: write and read back one response through the real caching + persistent store,
// under all interleavings of the concurrent part writes.
func c19Store(n int, pb int) vx.Scenario {
	return vx.Scenario{Name: fmt.Sprintf("c19/store/roundtrip%d", n), PB: pb, MaxSteps: 100000, MaxTime: time.Hour,
		Setup: func(s *vs.Sched) func(*vs.Result) vx.Exec {
			data := payload(9, n)
			var got, gotReq []byte
			var werr, rerr error
			done := false
			s.Thread("driver", func() {
				vae.Reset()
				st := cache.NewCachingStore(store.NewPersistentStore())
				ctx := context.Background()
				werr = st.WriteResponse(ctx, &types.Response{BackendID: "b1", RequestID: "r1", Contents: data})
				if werr == nil {
					var r *types.Response
					r, rerr = st.ReadResponse(ctx, "b1", "r1")
					if r != nil {
						got = r.Contents
					}
				}
				if err := st.WriteRequest(ctx, types.NewRequest("b1", "r2", u1, data)); err == nil {
					if r, err := st.ReadRequest(ctx, "b1", "r2"); err == nil {
						gotReq = r.Contents
					}
				}
				done = true
			})
			return func(r *vs.Result) vx.Exec {
				var x vx.Exec
				base(r, &x)
				if !done && len(r.Panics) == 0 {
					x.Violations = append(x.Violations, "HANG: store round trip never finished: "+blockedList(r))
					return x
				}
				if werr != nil || rerr != nil {
					x.Violations = append(x.Violations, fmt.Sprintf("STOREERR: write %v read %v for %d bytes", werr, rerr, n))
				} else if !bytes.Equal(got, data) {
					x.Violations = append(x.Violations, fmt.Sprintf("BLOB-ALTERED: a stored response of %d bytes read back with %d bytes, first difference at %d", n, len(got), firstDiff(got, data)))
				}
				if gotReq != nil && !bytes.Equal(gotReq, data) {
					x.Violations = append(x.Violations, fmt.Sprintf("BLOB-ALTERED: a stored request of %d bytes read back with %d bytes, first difference at %d", n, len(gotReq), firstDiff(gotReq, data)))
				}
				x.Obs = fmt.Sprintf("%d -> %d/%d", n, len(got), len(gotReq))
				return x
			}
		}}
}

// c19StoreFault: a blob of n bytes is written while a class of service calls fails (every write of a
// blob part, every second one, the last one, the entity itself): the write must return (with an error or
// not), never hang, and whatever reads back afterwards without an error must be the blob.
func c19StoreFault(n int, which string, pb int) vx.Scenario {
	return vx.Scenario{Name: fmt.Sprintf("c19/store/fault/%d/%s", n, which), PB: pb, MaxSteps: 100000, MaxTime: time.Hour,
		Setup: func(s *vs.Sched) func(*vs.Result) vx.Exec {
			data := payload(7, n)
			var got []byte
			var werr, rerr, wreq error
			done := false
			s.Thread("driver", func() {
				vae.Reset()
				st := cache.NewCachingStore(store.NewPersistentStore())
				ctx := context.Background()
				parts := 0
				vae.W().Fault = func(op vae.Op) error {
					if op.Service != "ds" || !strings.HasPrefix(op.Op, "Put") {
						return nil
					}
					isPart := strings.Contains(strings.ToLower(op.Kind), "part")
					if isPart {
						parts++
					}
					switch which {
					case "all-parts":
						if isPart {
							return errors.New("injected: part write failed")
						}
					case "odd-parts":
						if isPart && parts%2 == 1 {
							return errors.New("injected: part write failed")
						}
					case "even-parts":
						if isPart && parts%2 == 0 {
							return errors.New("injected: part write failed")
						}
					case "entity":
						if !isPart {
							return errors.New("injected: entity write failed")
						}
					case "everything":
						return errors.New("injected: datastore down")
					}
					return nil
				}
				werr = st.WriteResponse(ctx, &types.Response{BackendID: "b1", RequestID: "r1", Contents: data})
				wreq = st.WriteRequest(ctx, types.NewRequest("b1", "r2", u1, data))
				vae.W().Fault = nil
				var r *types.Response
				r, rerr = st.ReadResponse(ctx, "b1", "r1")
				if r != nil && rerr == nil {
					got = r.Contents
				}
				done = true
			})
			return func(r *vs.Result) vx.Exec {
				var x vx.Exec
				base(r, &x)
				x.Obs = fmt.Sprintf("%d bytes, %s failing: write %v / %v, read err %v, %d bytes back", n, which, werr != nil, wreq != nil, rerr != nil, len(got))
				if !done && len(r.Panics) == 0 {
					x.Violations = append(x.Violations, fmt.Sprintf("HANG: writing a %d-byte blob with %s failing never returned: %s", n, which, blockedList(r)))
					return x
				}
				if werr == nil && which != "none" && (which == "all-parts" || which == "everything" || which == "entity") && n > 1000000 {
					x.Violations = append(x.Violations, fmt.Sprintf("SILENT: writing a %d-byte response with %s failing reported success", n, which))
				}
				if werr == nil && rerr == nil && got != nil && !bytes.Equal(got, data) {
					x.Violations = append(x.Violations, fmt.Sprintf("BLOB-ALTERED: a response of %d bytes whose write reported success (%s failing) read back with %d bytes, first difference at %d", n, which, len(got), firstDiff(got, data)))
				}
				return x
			}
		}}
}

// c19PartGone: a blob of n bytes is stored, then one of its overflow parts disappears (the clean-up job
// removes parts by age on its own); reading must fail or return the whole blob, never a shortened one.
func c19PartGone(n int, which int) vx.Scenario {
	return vx.Scenario{Name: fmt.Sprintf("c19/store/part-gone/%d/part%d", n, which), PB: 0, Single: true, MaxSteps: 100000, MaxTime: time.Hour,
		Setup: func(s *vs.Sched) func(*vs.Result) vx.Exec {
			data := payload(5, n)
			var gotResp, gotReq []byte
			var rerr, qerr error
			removed := 0
			done := false
			s.Thread("driver", func() {
				vae.Reset()
				st := cache.NewCachingStore(store.NewPersistentStore())
				ctx := context.Background()
				st.WriteResponse(ctx, &types.Response{BackendID: "b1", RequestID: "r1", Contents: data})
				st.WriteRequest(ctx, types.NewRequest("b1", "r1", u1, data))
				// remove the which-th part entity of every blob; memcache does not hold blobs this large
				for kind, ents := range vae.W().Kinds {
					if !strings.Contains(strings.ToLower(kind), "part") {
						continue
					}
					var ids []string
					for id := range ents {
						ids = append(ids, id)
					}
					sort.Strings(ids)
					for _, id := range ids {
						if strings.HasSuffix(id, fmt.Sprint(which)) {
							delete(ents, id)
							removed++
						}
					}
				}
				if r, err := st.ReadResponse(ctx, "b1", "r1"); err != nil {
					rerr = err
				} else {
					gotResp = r.Contents
				}
				if r, err := st.ReadRequest(ctx, "b1", "r1"); err != nil {
					qerr = err
				} else {
					gotReq = r.Contents
				}
				done = true
			})
			return func(r *vs.Result) vx.Exec {
				var x vx.Exec
				base(r, &x)
				x.Obs = fmt.Sprintf("%d bytes, %d part entities removed: response err=%v %d bytes, request err=%v %d bytes", n, removed, rerr != nil, len(gotResp), qerr != nil, len(gotReq))
				if !done || removed == 0 {
					return x
				}
				if rerr == nil && !bytes.Equal(gotResp, data) {
					x.Violations = append(x.Violations, fmt.Sprintf("BLOB-SHORTENED: a stored response of %d bytes, one of whose parts is gone, read back without an error as %d bytes", n, len(gotResp)))
				}
				if qerr == nil && !bytes.Equal(gotReq, data) {
					x.Violations = append(x.Violations, fmt.Sprintf("BLOB-SHORTENED: a stored request of %d bytes, one of whose parts is gone, read back without an error as %d bytes", n, len(gotReq)))
				}
				return x
			}
		}}
}

func c19Scenarios(th bool) []vx.Scenario {
	var out []vx.Scenario
	for _, n := range []int{1500000, 2500000, 3200000} {
		for _, w := range []int{0, 1} {
			out = append(out, c19PartGone(n, w))
		}
	}
	for _, n := range []int{1500000, 2000001, 3200000} {
		for _, which := range []string{"all-parts", "odd-parts", "even-parts", "entity", "everything"} {
			out = append(out, c19StoreFault(n, which, 1))
		}
	}
	for _, n := range []int{999999, 1000000, 1999999, 2000001, 2500000, 3200000} {
		pb := 2
		if th {
			pb = 3
		}
		if n > 3000000 && !th {
			pb = 1 // three concurrent part writes: every order of their completions is reached with one preemption less
		}
		out = append(out, c19Store(n, pb))
	}
	// sizes: around the 1,000,000-byte inline / part limits, counting the serialised headers (<= 400 bytes): sweep the window
	sizes := []int{0, 1, 4096, 3000001}
	for _, b := range []int{1000000, 2000000} {
		for d := -3; d <= 1; d++ {
			sizes = append(sizes, b+d)
		}
		// the stored blob is the serialised request/response: headers included, so cover the window below the limit densely
		for h := 60; h <= 330; h += 1 {
			if th || h%9 == 0 {
				sizes = append(sizes, b-h)
			}
		}
	}
	for i, n := range sizes {
		out = append(out, c19Sizes(n, 10, i%2 == 0))
		out = append(out, c19Sizes(10, n, false))
	}
	out = append(out, c19Sizes(2000000, 2000000, true), c19Sizes(2500000, 3200000, true))
	// concurrency
	pb := 1
	if th {
		pb = 2
	}
	for _, two := range []bool{false, true} {
		for _, ord := range [][]string{{"c1", "c2"}, {"c2", "c1"}, {"both"}, {"c2"}, {"wrong", "c1"}, {}} {
			p := pb
			if two && !th && !(len(ord) == 1 && ord[0] == "both") {
				p = 0 // two backends: the default schedule in the quick tier, schedules in the thorough one
			}
			out = append(out, c19Conc(fmt.Sprintf("two=%v/%v", two, ord), two, ord, p))
		}
	}
	// outages: from the k-th service call of the cycle on, every call fails
	for k := 0; k < 14; k++ {
		out = append(out, c19Outage(k))
	}
	// faults: every single failing service call of the cycle, every pair
	n := 40
	for i := 0; i < n; i++ {
		out = append(out, c19Fault([]int{i}))
	}
	for i := 0; i < n; i++ {
		for j := i + 1; j < n; j++ {
			if !th && j-i > 6 {
				continue
			}
			out = append(out, c19Fault([]int{i, j}))
		}
	}
	return out
}
