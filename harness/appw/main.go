package main

import (
	"flag"
	"strings"

	"github.com/google/inverting-proxy/zz_verif/vx"
)

var prop = flag.String("prop", "C18", "C17|C18|C19")
var report = flag.String("report", "", "property id to report under (default: -prop)")

func main() {
	flag.Parse()
	if *report == "" {
		*report = *prop
	}
	vx.Main(&vx.Harness{Property: *report, Name: "appw-" + strings.ToLower(*prop), Scenarios: func(tier string) []vx.Scenario {
		th := tier == "thorough"
		switch *prop {
		case "C18":
			return append(append(c18HTTPScenarios(th), c18FaultScenarios(th)...), c18Scenarios(th)...)
		case "C17":
			return c17Scenarios(th)
		case "C19":
			return c19Scenarios(th)
		}
		return nil
	}})
}
