package main

import "github.com/google/inverting-proxy/zz_verif/vx"

func c19Scenarios(th bool) []vx.Scenario { return nil }
