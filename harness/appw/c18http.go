package main

// C18 at the HTTP level: whether a request is handed to a backend or answered
// 404 is decided by the proxy handler, so the histories here go through it: a
// route that was live (and whose GET answer may sit in the response cache) dies
// by deletion, re-registration or silence of its agent, or was never live at
// all; the next request must be answered 404 at once and must not be stored
// for any backend.

import (
	"context"
	"encoding/json"
	"errors"
	"fmt"
	"strings"
	"time"
	"unsafe"

	"github.com/google/inverting-proxy/app/cache"
	"github.com/google/inverting-proxy/app/store"
	"github.com/google/inverting-proxy/app/types"
	"github.com/google/inverting-proxy/zz_verif/vae"
	"github.com/google/inverting-proxy/zz_verif/vs"
	"github.com/google/inverting-proxy/zz_verif/vtime"
	"github.com/google/inverting-proxy/zz_verif/vx"
)

func storedRequests() int {
	n := 0
	for k, m := range vae.W().Kinds {
		if strings.HasPrefix(k, "request") || strings.HasPrefix(k, "Request") {
			n += len(m)
		}
	}
	return n
}

// serveOne lets the agent of backend b poll once and answer every listed request with a cacheable 200.
func serveOne(owner, b string) int {
	r := call(agent(owner), "GET", "/agent/pending", agentHdr(b, ""), nil)
	var ids []string
	json.Unmarshal(r.body, &ids)
	for _, id := range ids {
		call(agent(owner), "GET", "/agent/request", agentHdr(b, id), nil)
		body := []byte("from-" + b)
		call(agent(owner), "POST", "/agent/response", agentHdr(b, id), []byte(fmt.Sprintf("HTTP/1.1 200 OK\r\nContent-Length: %d\r\nX-From: %s\r\n\r\n%s", len(body), b, body)))
	}
	return len(ids)
}

// c18HTTP: method is the client's method; first says whether a first request is made (and answered) while
// the route is live; death is how the route dies; shared makes the backend one for allUsers.
func c18HTTP(method string, first bool, death string, shared bool) vx.Scenario {
	name := fmt.Sprintf("c18/http/%s/first=%v/%s/shared=%v", method, first, death, shared)
	return vx.Scenario{Name: name, PB: 0, Single: true, MaxSteps: 400000, MaxTime: 30 * time.Minute,
		Setup: func(s *vs.Sched) func(*vs.Result) vx.Exec {
			var r1, r2 *reply
			var t2 time.Duration
			var storedBefore, storedAfter int
			phase := 0
			var sync int
			endU := u1
			if shared {
				endU = "allUsers"
			}
			s.Thread("driver", func() {
				vae.Reset()
				addBackend(types.Backend{BackendID: "b1", BackendUser: a1, EndUser: endU, PathPrefixes: []string{"/"}})
				if death != "never-polled" {
					// the agent's poll makes the backend live (it returns empty after its long-poll window or at once)
					call(agent(a1), "GET", "/agent/pending", agentHdr("b1", ""), nil)
				}
				if first && death != "never-polled" {
					vs.Touch(unsafe.Pointer(&sync))
					phase = 1
					r1 = call(endUser(u1), method, "/page?x=1", nil, nil)
				}
				switch death {
				case "delete":
					call(admin, "DELETE", "/api/backends/b1", nil, nil)
				case "readd":
					addBackend(types.Backend{BackendID: "b1", BackendUser: a2, EndUser: endU, PathPrefixes: []string{"/"}})
					vtime.Sleep(5*time.Minute + time.Second)
				case "silent":
					vtime.Sleep(5*time.Minute + time.Second)
				case "never-polled":
				}
				vs.Touch(unsafe.Pointer(&sync))
				phase = 2
				storedBefore = storedRequests()
				t0 := s.Now()
				r2 = call(endUser(u1), method, "/page?x=1", nil, nil)
				t2 = s.Now() - t0
				storedAfter = storedRequests()
				vs.Touch(unsafe.Pointer(&sync))
				phase = 3
			})
			s.Thread("agent-b1", func() {
				vs.Wait("first request under way", unsafe.Pointer(&sync), func() bool { return phase >= 1 })
				if phase == 1 {
					for i := 0; i < 3 && serveOne(a1, "b1") == 0; i++ {
					}
				}
			})
			return func(r *vs.Result) vx.Exec {
				var x vx.Exec
				base(r, &x)
				if len(r.Blocked) > 0 && len(r.Panics) == 0 {
					x.Violations = append(x.Violations, "HANG: "+blockedList(r))
				}
				if first && death != "never-polled" && (r1 == nil || r1.status != 200 || string(r1.body) != "from-b1") {
					st := -1
					if r1 != nil {
						st = r1.status
					}
					x.Violations = append(x.Violations, fmt.Sprintf("SETUP: the request made while the backend was live was answered %d", st))
				}
				if r2 == nil || !r2.done {
					return x
				}
				x.Obs = fmt.Sprintf("%s: second request %d after %v, stored %d->%d", name, r2.status, t2, storedBefore, storedAfter)
				how := map[string]string{"delete": "its backend was deleted", "readd": "its backend was re-registered and the new agent never polled", "silent": "its backend's agent had been silent for more than five minutes", "never-polled": "its backend's agent never polled"}[death]
				if r2.status != 404 {
					x.Violations = append(x.Violations, fmt.Sprintf("DEAD-ROUTE-ANSWERED: %s /page?x=1 was answered %d (%q) although %s; must be 404", method, r2.status, clip(string(r2.body)), how))
				} else if t2 > time.Second {
					x.Violations = append(x.Violations, fmt.Sprintf("DEAD-ROUTE-WAITED: the 404 for a request whose route is not live (%s) took %v", how, t2))
				}
				if storedAfter != storedBefore {
					x.Violations = append(x.Violations, fmt.Sprintf("DEAD-ROUTE-STORED: a request was stored for a backend although %s (%d -> %d stored requests)", how, storedBefore, storedAfter))
				}
				return x
			}
		}}
}

func c18HTTPScenarios(th bool) []vx.Scenario {
	var out []vx.Scenario
	for _, m := range []string{"GET", "POST"} {
		for _, d := range []string{"delete", "readd", "silent", "never-polled"} {
			for _, sh := range []bool{false, true} {
				out = append(out, c18HTTP(m, true, d, sh))
				if d != "never-polled" {
					out = append(out, c18HTTP(m, false, d, sh))
				}
			}
		}
	}
	return out
}

// c18LookupFault: the user has a backend of his own for the path and a shared backend matches too; the
// k-th service call of the lookup fails. The answer may be the user's backend or a failure (404 / 5xx),
// never the shared backend: the fallback is for users without a match, not for lookups that failed.
func c18LookupFault(ownLive bool, k int) vx.Scenario {
	return vx.Scenario{Name: fmt.Sprintf("c18/lookup-fault/own-live=%v/service-call-%d-fails", ownLive, k), PB: 0, Single: true, MaxSteps: 400000, MaxTime: 30 * time.Minute,
		Setup: func(s *vs.Sched) func(*vs.Result) vx.Exec {
			var got string
			var gerr error
			var res *reply
			var pendingShared, nops int
			s.Thread("driver", func() {
				vae.Reset()
				st := cache.NewCachingStore(store.NewPersistentStore())
				ctx := context.Background()
				st.AddBackend(ctx, &types.Backend{BackendID: "own", BackendUser: a1, EndUser: u1, PathPrefixes: []string{"/"}})
				st.AddBackend(ctx, &types.Backend{BackendID: "shared", BackendUser: a2, EndUser: "allUsers", PathPrefixes: []string{"/"}})
				if ownLive {
					st.ListPendingRequests(ctx, "own")
				}
				st.ListPendingRequests(ctx, "shared")
				fault := func(op vae.Op) error {
					i := nops
					nops++
					if i == k {
						return errors.New("injected: datastore timeout")
					}
					return nil
				}
				vae.W().Fault = fault
				got, gerr = st.LookupBackend(ctx, u1, "/page")
				vae.W().Fault = nil
				// and through the handler: the request must not end up in the shared backend's queue
				nops = 0
				before := storedRequests()
				vae.W().Fault = fault
				done := false
				vs.Go(func() {
					res = call(endUser(u1), "POST", "/page", nil, []byte("x"))
					done = true
				})
				vtime.Sleep(2 * time.Second)
				vae.W().Fault = nil
				_ = done
				ids, _ := st.ListPendingRequests(ctx, "shared")
				pendingShared = len(ids)
				_ = before
			})
			return func(r *vs.Result) vx.Exec {
				var x vx.Exec
				base(r, &x)
				x.Obs = fmt.Sprintf("own-live=%v call %d fails: lookup %q err=%v; shared queue %d", ownLive, k, got, gerr != nil, pendingShared)
				if gerr == nil && got == "shared" {
					x.Violations = append(x.Violations, fmt.Sprintf("FALLBACK-ON-FAILURE: %s has a backend of his own for /page, but with service call %d of the lookup failing he was routed to the shared backend", u1, k))
				}
				if pendingShared > 0 {
					x.Violations = append(x.Violations, fmt.Sprintf("FALLBACK-ON-FAILURE: with service call %d failing, %s's request was queued for the shared backend although he has a backend of his own for the path", k, u1))
				}
				_ = res
				return x
			}
		}}
}

func c18FaultScenarios(th bool) []vx.Scenario {
	var out []vx.Scenario
	cpb := 2
	if th {
		cpb = 3
	}
	out = append(out, c18Concurrent(cpb))
	n := 6
	if th {
		n = 10
	}
	for _, live := range []bool{true, false} {
		for k := 0; k < n; k++ {
			out = append(out, c18LookupFault(live, k))
		}
	}
	return out
}

// c18Concurrent: a lookup is under way while the administrator registers a more specific backend and its
// agent polls; a second lookup that starts after that has completed must see the new backend: the answer
// depends on the registered backends, the user and the path, not on what else is in flight.
func c18Concurrent(pb int) vx.Scenario {
	return vx.Scenario{Name: "c18/concurrent/lookup-while-registering", PB: pb, MaxSteps: 400000, MaxTime: 30 * time.Minute,
		Setup: func(s *vs.Sched) func(*vs.Result) vx.Exec {
			var l1, l2 string
			var e2 error
			stage := 0
			var sync int
			var st types.Store
			ctx := context.Background()
			s.Thread("setup", func() {
				vae.Reset()
				st = cache.NewCachingStore(store.NewPersistentStore())
				st.AddBackend(ctx, &types.Backend{BackendID: "b-root", BackendUser: a1, EndUser: u1, PathPrefixes: []string{"/"}})
				st.ListPendingRequests(ctx, "b-root")
				vs.Touch(unsafe.Pointer(&sync))
				stage = 1
			})
			s.Thread("lookup1", func() {
				vs.Wait("set-up", unsafe.Pointer(&sync), func() bool { return stage >= 1 })
				l1, _ = st.LookupBackend(ctx, u1, "/app/page")
			})
			s.Thread("admin", func() {
				vs.Wait("set-up", unsafe.Pointer(&sync), func() bool { return stage >= 1 })
				st.AddBackend(ctx, &types.Backend{BackendID: "b-app", BackendUser: a2, EndUser: u1, PathPrefixes: []string{"/app"}})
				st.ListPendingRequests(ctx, "b-app")
				vs.Touch(unsafe.Pointer(&sync))
				stage = 2
			})
			s.Thread("lookup2", func() {
				vs.Wait("the new backend is registered and live", unsafe.Pointer(&sync), func() bool { return stage >= 2 })
				l2, e2 = st.LookupBackend(ctx, u1, "/app/page")
			})
			return func(r *vs.Result) vx.Exec {
				var x vx.Exec
				base(r, &x)
				if len(r.Blocked) > 0 && len(r.Panics) == 0 {
					x.Violations = append(x.Violations, "HANG: "+blockedList(r))
				}
				x.Obs = fmt.Sprintf("first lookup %q, second lookup %q", l1, l2)
				// during the registration the new backend may already be the most specific match and not yet
				// live: 404 ("") is a correct answer for the first lookup then
				if l1 != "b-root" && l1 != "b-app" && l1 != "" {
					x.Violations = append(x.Violations, fmt.Sprintf("MISROUTED: the lookup under way during the registration answered %q", l1))
				}
				if e2 != nil || l2 != "b-app" {
					x.Violations = append(x.Violations, fmt.Sprintf("STALE-ROUTE: a lookup for /app/page that started after the backend for /app was registered and had polled answered %q (err %v), not b-app", l2, e2))
				}
				return x
			}
		}}
}
