// Harness appw: the App Engine proxy (app/proxy.go with app/store and
// app/cache) on the in-memory App Engine fake (vae), under the controlled
// scheduler and the virtual clock.
package main

import (
	"bytes"
	"context"
	"encoding/json"
	"fmt"
	"net/http"
	"net/http/httptest"
	"strings"

	"github.com/google/inverting-proxy/app/types"
	_ "github.com/google/inverting-proxy/zz_verif/p/vapp" // registers the handler on http.DefaultServeMux
	"github.com/google/inverting-proxy/zz_verif/vae"
	"github.com/google/inverting-proxy/zz_verif/vs"
	"github.com/google/inverting-proxy/zz_verif/vx"
)

// who describes the caller of a request as App Engine's front end establishes it.
type who struct {
	module     string // "default" (end users), "agent", "api"
	user       string
	admin      bool
	oauth      string
	oauthAdmin bool
}

type reply struct {
	status int
	header http.Header
	body   []byte
	done   bool
}

func call(w who, method, path string, hdr map[string]string, body []byte) *reply {
	r := httptest.NewRequest(method, "http://proxy.example"+path, bytes.NewReader(body))
	r.Header.Set(vae.HModule, w.module)
	if w.user != "" {
		r.Header.Set(vae.HUser, w.user)
	}
	if w.admin {
		r.Header.Set(vae.HAdmin, "1")
	}
	if w.oauth != "" {
		r.Header.Set(vae.HOAuth, w.oauth)
	}
	if w.oauthAdmin {
		r.Header.Set(vae.HOAuthAdmin, "1")
	}
	for k, v := range hdr {
		r.Header.Set(k, v)
	}
	rec := httptest.NewRecorder()
	res := &reply{}
	http.DefaultServeMux.ServeHTTP(rec, r)
	res.status, res.header, res.body, res.done = rec.Code, rec.Header(), rec.Body.Bytes(), true
	return res
}

var admin = who{module: "api", user: "root@example.com", admin: true}

func addBackend(b types.Backend) *reply {
	js, _ := json.Marshal(b)
	return call(admin, "POST", "/api/backends", nil, js)
}

func agent(id string) who { return who{module: "agent", oauth: id} }

func endUser(u string) who { return who{module: "default", user: u} }

func agentHdr(backend, reqID string) map[string]string {
	h := map[string]string{}
	if backend != "" {
		h["X-Inverting-Proxy-Backend-ID"] = backend
	}
	if reqID != "" {
		h["X-Inverting-Proxy-Request-ID"] = reqID
	}
	return h
}

func base(r *vs.Result, x *vx.Exec) {
	for _, p := range r.Panics {
		x.Violations = append(x.Violations, "PANIC: "+p)
	}
}

func blockedList(r *vs.Result) string {
	var p []string
	for _, b := range r.Blocked {
		if !b.Daemon {
			p = append(p, b.Thread+" in "+b.Op)
		}
	}
	return strings.Join(p, "; ")
}

var _ = context.Background
var _ = fmt.Sprint
