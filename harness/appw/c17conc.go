package main

import (
	"bytes"
	"context"
	"encoding/json"
	"errors"
	"fmt"
	"strings"
	"time"
	"unsafe"

	"github.com/google/inverting-proxy/app/cache"
	"github.com/google/inverting-proxy/app/store"
	"github.com/google/inverting-proxy/app/types"
	"github.com/google/inverting-proxy/zz_verif/vae"
	"github.com/google/inverting-proxy/zz_verif/vs"
	"github.com/google/inverting-proxy/zz_verif/vx"
)

// c17ConcFetch: the two agents fetch (or list) at the same time, each for its own
// backend, after a first round that filled the caches; whatever the
// interleaving, each of them is answered with its own backend's request only.
func c17ConcFetch(ep string, pb int) vx.Scenario {
	return vx.Scenario{Name: "c17/concurrent/" + ep, PB: pb, MaxSteps: 200000, MaxTime: 2 * time.Minute,
		Setup: func(s *vs.Sched) func(*vs.Result) vx.Exec {
			w := &c17World{}
			w.ids = map[string]string{"R1": "id-one", "R2": "id-two"}
			w.owner = map[string]string{"b1": a1, "b2": a2}
			w.reqOf = map[string]string{"b1": "R1", "b2": "R2"}
			w.secret = map[string]string{"R1": "secret-of-user1-" + strings.Repeat("x", 20), "R2": "secret-of-user2-" + strings.Repeat("y", 20)}
			res := map[string]*reply{}
			stage := 0
			s.Thread("setup", func() {
				vae.Reset()
				addBackend(types.Backend{BackendID: "b1", BackendUser: a1, EndUser: u1, PathPrefixes: []string{"/"}})
				addBackend(types.Backend{BackendID: "b2", BackendUser: a2, EndUser: "allUsers", PathPrefixes: []string{"/s"}})
				// the two end-user requests are put into the store directly: their clients play no part here
				st := cache.NewCachingStore(store.NewPersistentStore())
				ctx := context.Background()
				for _, b := range []string{"b1", "b2"} {
					rn := w.reqOf[b]
					usr := u1
					if b == "b2" {
						usr = u2
					}
					raw := fmt.Sprintf("POST /doc HTTP/1.1\r\nHost: proxy.example\r\nContent-Length: %d\r\nX-Secret: %s\r\n\r\n%s", len(w.secret[rn]), w.secret[rn], w.secret[rn])
					if err := st.WriteRequest(ctx, types.NewRequest(b, w.ids[rn], usr, []byte(raw))); err != nil {
						panic(err)
					}
				}
				// first round, one after the other: fills the caches
				w.do(agentCall{"request", a1, "b1", "R1"})
				w.do(agentCall{"request", a2, "b2", "R2"})
				vs.Touch(unsafe.Pointer(w))
				stage = 1
			})
			for _, b := range []string{"b1", "b2"} {
				b := b
				s.Thread("again-"+b, func() {
					vs.Wait("first round done", unsafe.Pointer(w), func() bool { return stage == 1 })
					c := agentCall{ep, w.owner[b], b, w.reqOf[b]}
					if ep == "pending" {
						c.reqID = ""
					}
					res[b] = &reply{}
					r := w.do(c)
					vs.Touch(unsafe.Pointer(w))
					res[b] = r
				})
			}
			return func(r *vs.Result) vx.Exec {
				var x vx.Exec
				base(r, &x)
				if len(r.Blocked) > 0 && len(r.Panics) == 0 {
					x.Violations = append(x.Violations, "HANG: "+blockedList(r))
				}
				var obs []string
				for _, b := range []string{"b1", "b2"} {
					rr := res[b]
					if rr == nil || !rr.done {
						continue
					}
					own, other := w.reqOf[b], "R1"
					if own == "R1" {
						other = "R2"
					}
					obs = append(obs, fmt.Sprintf("%s:%d", b, rr.status))
					if rr.status != 200 {
						x.Violations = append(x.Violations, fmt.Sprintf("REJECTED: the registered agent of %s was answered %d to its own %s call while the other agent was calling", b, rr.status, ep))
						continue
					}
					if bytes.Contains(rr.body, []byte(w.secret[other])) || strings.Contains(fmt.Sprint(rr.header), w.secret[other]) || bytes.Contains(rr.body, []byte(w.ids[other])) {
						x.Violations = append(x.Violations, fmt.Sprintf("CROSS-BACKEND: the agent of %s was answered with the other backend's request (%s call, concurrent with the other agent's)", b, ep))
					}
					if ep == "request" {
						if !bytes.Contains(rr.body, []byte(w.secret[own])) {
							x.Violations = append(x.Violations, fmt.Sprintf("FETCH: the agent of %s did not get its own request's bytes", b))
						}
						wantUser := u1
						if b == "b2" {
							wantUser = u2
						}
						if got := rr.header.Get("X-Inverting-Proxy-User-Id"); got != wantUser {
							x.Violations = append(x.Violations, fmt.Sprintf("CROSS-BACKEND: the agent of %s was told the request comes from %q, it comes from %q", b, got, wantUser))
						}
					}
				}
				x.Obs = strings.Join(obs, " ")
				return x
			}
		}}
}

// c17LongURL: two users, each with a backend of his own for the path, ask for the
// same very long URL one after the other; the second one must be served by his
// own backend, whatever the first one's answer was.
func c17LongURL(n int) vx.Scenario {
	return vx.Scenario{Name: fmt.Sprintf("c17/same-url-two-users/len%d", n), PB: 0, Single: true, MaxSteps: 400000, MaxTime: 10 * time.Minute,
		Setup: func(s *vs.Sched) func(*vs.Result) vx.Exec {
			var r1, r2 *reply
			stage := 0
			var sync int
			path := "/s/" + strings.Repeat("p", n/2) + "?q=" + strings.Repeat("v", n-n/2)
			s.Thread("driver", func() {
				vae.Reset()
				addBackend(types.Backend{BackendID: "b1", BackendUser: a1, EndUser: u1, PathPrefixes: []string{"/"}})
				addBackend(types.Backend{BackendID: "b2", BackendUser: a2, EndUser: u2, PathPrefixes: []string{"/s"}})
				call(agent(a1), "GET", "/agent/pending", agentHdr("b1", ""), nil)
				call(agent(a2), "GET", "/agent/pending", agentHdr("b2", ""), nil)
				vs.Touch(unsafe.Pointer(&sync))
				stage = 1
				r1 = call(endUser(u1), "GET", path, nil, nil)
				vs.Touch(unsafe.Pointer(&sync))
				stage = 2
				r2 = call(endUser(u2), "GET", path, nil, nil)
				vs.Touch(unsafe.Pointer(&sync))
				stage = 3
			})
			for _, b := range []string{"b1", "b2"} {
				b := b
				s.Thread("agent-"+b, func() {
					owner := a1
					if b == "b2" {
						owner = a2
					}
					vs.Wait("backends live", unsafe.Pointer(&sync), func() bool { return stage >= 1 })
					for i := 0; i < 40 && stage < 3; i++ {
						serveOne(owner, b)
					}
				})
			}
			return func(r *vs.Result) vx.Exec {
				var x vx.Exec
				base(r, &x)
				if r1 == nil || r2 == nil || !r2.done {
					if len(r.Panics) == 0 {
						x.Violations = append(x.Violations, "NOANSWER: "+blockedList(r))
					}
					return x
				}
				x.Obs = fmt.Sprintf("len %d: u1 %d %q, u2 %d %q", n, r1.status, clip(string(r1.body)), r2.status, clip(string(r2.body)))
				if r1.status != 200 || string(r1.body) != "from-b1" {
					x.Violations = append(x.Violations, fmt.Sprintf("MISROUTED: %s's request was answered %d %q, his backend is b1", u1, r1.status, clip(string(r1.body))))
				}
				if r2.status != 200 || string(r2.body) != "from-b2" {
					x.Violations = append(x.Violations, fmt.Sprintf("OTHER-USERS-BACKEND: %s asked for the URL (%d bytes) that %s had asked for before and was answered %d %q; his own backend b2 must serve him", u2, len(path), u1, r2.status, clip(string(r2.body))))
				}
				return x
			}
		}}
}

// c17Fault: an agent call that must be refused (another backend's request id, or a foreign caller),
// made while the k-th service call of its handling fails: a transient storage error must not turn a
// refusal into an acceptance.
func c17Fault(c agentCall, k int) vx.Scenario {
	return vx.Scenario{Name: fmt.Sprintf("c17/fault/%s/service-call-%d-fails", c.String(), k), PB: 0, Single: true, MaxSteps: 200000, MaxTime: 2 * time.Minute,
		Setup: func(s *vs.Sched) func(*vs.Result) vx.Exec {
			w := &c17World{}
			var res *reply
			nops := 0
			c17Setup(s, w, func() {
				vae.W().Fault = func(op vae.Op) error {
					i := nops
					nops++
					if i == k {
						return errors.New("injected: datastore timeout")
					}
					return nil
				}
				res = &reply{}
				res = w.do(c)
				vae.W().Fault = nil
			})
			return func(r *vs.Result) vx.Exec {
				var x vx.Exec
				base(r, &x)
				if res == nil || !res.done {
					if len(r.Panics) == 0 && res != nil {
						x.Violations = append(x.Violations, fmt.Sprintf("NOANSWER: %s got no answer with service call %d failing; %s", c.String(), k, blockedList(r)))
					}
					return x
				}
				x.Obs = fmt.Sprintf("%s with service call %d of %d failing -> %d", c.String(), k, nops, res.status)
				if res.status == 200 {
					x.Violations = append(x.Violations, fmt.Sprintf("FAULT-ACCEPTED: %s must be refused, but with service call %d of its handling failing it was answered 200", c.String(), k))
				}
				if l := w.leaks(res); l != "" {
					x.Violations = append(x.Violations, fmt.Sprintf("LEAK: %s (refused call, service call %d failing) revealed %s", c.String(), k, l))
				}
				// the other backend's client must still be waiting, not answered by this caller
				other := "R2"
				if c.backend == "b2" {
					other = "R1"
				}
				if cr := w.clientR[other]; cr != nil && cr.done && cr.status == 200 && string(cr.body) == "forged" {
					x.Violations = append(x.Violations, fmt.Sprintf("CROSS-BACKEND: %s (service call %d failing) delivered its response to the other backend's client request %s", c.String(), k, other))
				}
				return x
			}
		}}
}

func c17FaultScenarios(th bool) []vx.Scenario {
	var out []vx.Scenario
	refused := []agentCall{
		{"response", a1, "b1", "R2"}, {"request", a1, "b1", "R2"}, {"response", a2, "b2", "R1"},
		{"response", "mallory@example.com", "b1", "R1"}, {"request", "mallory@example.com", "b1", "R1"}, {"pending", "mallory@example.com", "b1", ""},
		{"response", a2, "b1", "R1"}, {"request", a2, "b1", "R1"},
	}
	n := 8
	if th {
		n = 14
	}
	for _, c := range refused {
		for k := 0; k < n; k++ {
			out = append(out, c17Fault(c, k))
		}
	}
	for _, how := range []string{"delete", "readd"} {
		for k := 0; k < n; k++ {
			out = append(out, c17AdminFault(how, k))
		}
	}
	for _, pr := range [][2]string{{"team/a", "team_a"}, {"team a", "team_a"}, {"team.a", "team-a"}, {"Team_A", "team_a"}, {"b\"1", "b1"}, {"b1", "b1 "}} {
		out = append(out, c17Lookalike(pr[0], pr[1]), c17Lookalike(pr[1], pr[0]))
	}
	return out
}

// c17Lookalike: two backends whose ids differ only in punctuation ("team/a", "team_a", "team a", "TEAM_A").
// The agent of one of them lists, fetches and answers with the other's request id: nothing of the other
// backend may be listed, revealed or completed.
func c17Lookalike(idA, idB string) vx.Scenario {
	return vx.Scenario{Name: fmt.Sprintf("c17/lookalike-ids/%q-vs-%q", idA, idB), PB: 0, Single: true, MaxSteps: 400000, MaxTime: 5 * time.Minute,
		Setup: func(s *vs.Sched) func(*vs.Result) vx.Exec {
			var listB, fetchB, respB *reply
			var clientA *reply
			reqID := ""
			secret := "secret-of-the-user-of-A-" + strings.Repeat("x", 12)
			stage := 0
			var sync int
			s.Thread("driver", func() {
				vae.Reset()
				addBackend(types.Backend{BackendID: idA, BackendUser: a1, EndUser: u1, PathPrefixes: []string{"/"}})
				addBackend(types.Backend{BackendID: idB, BackendUser: a2, EndUser: u2, PathPrefixes: []string{"/"}})
				call(agent(a1), "GET", "/agent/pending", agentHdr(idA, ""), nil)
				call(agent(a2), "GET", "/agent/pending", agentHdr(idB, ""), nil)
				vs.Touch(unsafe.Pointer(&sync))
				stage = 1
				// the rightful agent sees the request
				l := call(agent(a1), "GET", "/agent/pending", agentHdr(idA, ""), nil)
				var ids []string
				json.Unmarshal(l.body, &ids)
				if len(ids) == 1 {
					reqID = ids[0]
				}
				// the other backend's agent, acting as its own backend
				listB = call(agent(a2), "GET", "/agent/pending", agentHdr(idB, ""), nil)
				fetchB = call(agent(a2), "GET", "/agent/request", agentHdr(idB, reqID), nil)
				respB = call(agent(a2), "POST", "/agent/response", agentHdr(idB, reqID), []byte("HTTP/1.1 200 OK\r\nContent-Length: 6\r\n\r\nforged"))
				vs.Touch(unsafe.Pointer(&sync))
				stage = 2
			})
			s.Thread("client-A", func() {
				vs.Wait("backends live", unsafe.Pointer(&sync), func() bool { return stage >= 1 })
				clientA = &reply{}
				clientA = call(endUser(u1), "POST", "/doc", map[string]string{"X-Secret": secret}, []byte(secret))
			})
			return func(r *vs.Result) vx.Exec {
				var x vx.Exec
				base(r, &x)
				if listB == nil || respB == nil || !respB.done {
					if len(r.Panics) == 0 {
						x.Violations = append(x.Violations, "NOANSWER: "+blockedList(r))
					}
					return x
				}
				x.Obs = fmt.Sprintf("%q vs %q: list %d %q, fetch %d, respond %d", idA, idB, listB.status, clip(string(listB.body)), fetchB.status, respB.status)
				if reqID == "" {
					x.Violations = append(x.Violations, "SETUP: the rightful agent was not shown its request")
					return x
				}
				if bytes.Contains(listB.body, []byte(reqID)) {
					x.Violations = append(x.Violations, fmt.Sprintf("CROSS-BACKEND: the agent of %q was shown request %s, which belongs to %q", idB, reqID, idA))
				}
				if fetchB.status == 200 || bytes.Contains(fetchB.body, []byte(secret)) || strings.Contains(fmt.Sprint(fetchB.header), secret) {
					x.Violations = append(x.Violations, fmt.Sprintf("CROSS-BACKEND: the agent of %q fetched request %s of %q (status %d)", idB, reqID, idA, fetchB.status))
				}
				if respB.status == 200 {
					x.Violations = append(x.Violations, fmt.Sprintf("CROSS-BACKEND: the agent of %q answered request %s of %q (status 200)", idB, reqID, idA))
				}
				if clientA != nil && clientA.done && clientA.status == 200 && string(clientA.body) == "forged" {
					x.Violations = append(x.Violations, fmt.Sprintf("CROSS-BACKEND: the client of %q received the response forged by the agent of %q", idA, idB))
				}
				return x
			}
		}}
}

// c17AdminFault: an administrator's DELETE (or re-registration) of a backend with the k-th service call
// failing: if the call reports success the change has happened - the former agent is refused.
func c17AdminFault(how string, k int) vx.Scenario {
	return vx.Scenario{Name: fmt.Sprintf("c17/admin-fault/%s/service-call-%d-fails", how, k), PB: 0, Single: true, MaxSteps: 200000, MaxTime: 2 * time.Minute,
		Setup: func(s *vs.Sched) func(*vs.Result) vx.Exec {
			w := &c17World{}
			var adminRes, after *reply
			nops := 0
			c17Setup(s, w, func() {
				vae.W().Fault = func(op vae.Op) error {
					i := nops
					nops++
					if i == k {
						return errors.New("injected: datastore timeout")
					}
					return nil
				}
				switch how {
				case "delete":
					adminRes = call(admin, "DELETE", "/api/backends/b1", nil, nil)
				case "readd":
					adminRes = addBackend(types.Backend{BackendID: "b1", BackendUser: a2, EndUser: u1, PathPrefixes: []string{"/"}})
				}
				vae.W().Fault = nil
				after = w.do(agentCall{"pending", a1, "b1", ""})
			})
			return func(r *vs.Result) vx.Exec {
				var x vx.Exec
				base(r, &x)
				if adminRes == nil || after == nil || !after.done {
					return x
				}
				x.Obs = fmt.Sprintf("%s with service call %d failing -> %d; former agent then %d", how, k, adminRes.status, after.status)
				if adminRes.status == 200 && after.status != 401 {
					x.Violations = append(x.Violations, fmt.Sprintf("ACKNOWLEDGED-NOT-DONE: the administrator's %s of backend b1 answered 200 (service call %d failing), but its former agent is still accepted (status %d)", how, k, after.status))
				}
				return x
			}
		}}
}
