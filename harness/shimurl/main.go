// Harness shimurl (C13): every open-request body from (a) all strings up to a
// length bound over a 12-symbol alphabet of URL syntax characters and (b) a
// structured grammar scheme x authority x path x query x fragment is pushed
// through the real websockets.Proxy handler; the real gorilla dialler is left
// in place with its NetDialContext replaced by a recorder that refuses the
// connection, so the address it would connect to is computed by gorilla
// itself. Oracle: every address dialled is the configured backend host; the
// URL handed to the dialler has scheme ws, the configured host, no userinfo,
// and exactly the supplied URL's path and query. Requests outside the shim
// prefix must reach the wrapped handler unchanged and dial nothing.
package main

import (
	"context"
	"errors"
	"fmt"
	"net"
	"net/http"
	"net/http/httptest"
	"net/url"
	"strings"

	"github.com/google/inverting-proxy/agent/metrics"
	"github.com/google/inverting-proxy/agent/websockets"
	"github.com/google/inverting-proxy/zz_verif/vws"
	"github.com/google/inverting-proxy/zz_verif/vx"
)

const alphabet = "a:/?#@[]%.1\\"

var hosts = []string{"backend.test:8080", "backend.test"}

var (
	handlers   []http.Handler
	dialAddrs  []string
	dialURLs   []string
	wrappedSaw []string
)

func initHandlers(string) {
	vws.DefaultDialer.Proxy = nil
	vws.DefaultDialer.NetDialContext = func(ctx context.Context, network, addr string) (net.Conn, error) {
		dialAddrs = append(dialAddrs, addr)
		return nil, errors.New("refused by the harness")
	}
	vws.TestHookDial = func(u string, h http.Header) { dialURLs = append(dialURLs, u) }
	for _, h := range hosts {
		wrapped := http.HandlerFunc(func(w http.ResponseWriter, r *http.Request) {
			wrappedSaw = append(wrappedSaw, r.Method+" "+r.URL.String())
			w.WriteHeader(204)
		})
		hd, err := websockets.Proxy(context.Background(), wrapped, h, "shim", false, false, func(h http.Handler, _ *metrics.MetricHandler) http.Handler { return h }, nil)
		_ = err
		handlers = append(handlers, hd)
	}
}

var structured []string

func init() {
	schemes := []string{"", "a:", "ws:", "wss:", "x:ws:", "http:"}
	auths := []string{"", "//", "//h", "//h:1", "//u@h", "//u:p@h:1", "//[::1]:2", "//evil.example:9"}
	paths := []string{"", "/", "/p", "p", "//e:9/s", "/..//e", ".evil.example/x", "1/s", "/a b", "/%2F", "@e/x", "\\\\e\\x"}
	queries := []string{"", "?", "?q=1", "?q=//e:9/x", "?a=1&b=2"}
	frags := []string{"", "#f"}
	for _, s := range schemes {
		for _, a := range auths {
			for _, p := range paths {
				for _, q := range queries {
					for _, f := range frags {
						structured = append(structured, s+a+p+q+f)
					}
				}
			}
		}
	}
	structured = append(structured, "ws://evil:1/x", "x:y", "ws:foo", "\x00", "\x7f/", strings.Repeat("/a", 4096), "ws://h/"+strings.Repeat("a", 65536), "ws://a//127.0.0.1:9/socket", "x:ws://evil/p", "HTTP://EVIL/", "//evil", "///evil", "/\\evil", "ws://backend.test:8080@evil/")
}

func maxLen(tier string) int {
	if tier == "thorough" {
		return 7
	}
	return 6
}

func nStrings(l int) int {
	n, p := 0, 1
	for i := 0; i <= l; i++ {
		n += p
		p *= len(alphabet)
	}
	return n
}

func nthString(i int) string {
	// strings ordered by length, then lexicographically over the alphabet
	l, p := 0, 1
	for i >= p {
		i -= p
		p *= len(alphabet)
		l++
	}
	b := make([]byte, l)
	for k := l - 1; k >= 0; k-- {
		b[k] = alphabet[i%len(alphabet)]
		i /= len(alphabet)
	}
	return string(b)
}

var nonShim = []string{"/", "/x", "/shimx", "/shim/../x", "/shi", "//shim/open"}

func total(tier string) int {
	return (nStrings(maxLen(tier))+len(structured))*len(hosts) + len(nonShim)*len(hosts)
}

func caseOf(tier string, i int) (kind string, host int, body string) {
	per := nStrings(maxLen(tier)) + len(structured)
	if i < per*len(hosts) {
		host = i / per
		j := i % per
		if j < len(structured) {
			return "open", host, structured[j]
		}
		return "open", host, nthString(j - len(structured))
	}
	i -= per * len(hosts)
	return "path", i / len(nonShim), nonShim[i%len(nonShim)]
}

func eval(tier string, i int) vx.Exec {
	kind, hi, body := caseOf(tier, i)
	dialAddrs, dialURLs, wrappedSaw = dialAddrs[:0], dialURLs[:0], wrappedSaw[:0]
	var x vx.Exec
	host := hosts[hi]
	if kind == "path" {
		rec := httptest.NewRecorder()
		r := httptest.NewRequest("POST", "http://client.example"+body, strings.NewReader("ws://evil/x"))
		handlers[hi].ServeHTTP(rec, r)
		x.Obs = fmt.Sprintf("path %q -> %d wrapped=%v dials=%v", body, rec.Code, wrappedSaw, dialAddrs)
		if len(dialAddrs) > 0 {
			x.Violations = append(x.Violations, fmt.Sprintf("NONSHIM-DIAL: request for %q (outside the shim prefix) made the agent dial %v", body, dialAddrs))
		}
		if rec.Code != 204 && rec.Code != 301 {
			x.Violations = append(x.Violations, fmt.Sprintf("NONSHIM-HANDLED: request for %q did not reach the wrapped handler (status %d)", body, rec.Code))
		}
		x.Nontrivial = true
		return x
	}
	rec := httptest.NewRecorder()
	r := httptest.NewRequest("POST", "http://client.example/shim/open", strings.NewReader(body))
	handlers[hi].ServeHTTP(rec, r)
	x.Obs = fmt.Sprintf("%d dial=%v url=%v", rec.Code, dialAddrs, dialURLs)
	x.Nontrivial = len(dialURLs) > 0
	want := host
	if !strings.Contains(host, ":") {
		want = host + ":80"
	}
	for _, a := range dialAddrs {
		if a != want {
			x.Violations = append(x.Violations, fmt.Sprintf("FOREIGN-PEER: open request %q made the agent connect to %q, configured backend is %q", clip(body), a, host))
		}
	}
	in, perr := url.Parse(body)
	for _, us := range dialURLs {
		u, err := url.Parse(us)
		if err != nil {
			continue // gorilla refuses it too
		}
		if len(dialAddrs) == 0 {
			continue // refused before any connection
		}
		if u.Scheme != "ws" || u.Host != host || u.User != nil || u.Opaque != "" {
			x.Violations = append(x.Violations, fmt.Sprintf("FOREIGN-URL: open request %q led to dialling URL %q (scheme/host/userinfo must be the configured backend's)", clip(body), clip(us)))
		} else if perr == nil && (lead(u.EscapedPath()) != lead(in.EscapedPath()) || u.RawQuery != in.RawQuery) && in.Opaque == "" {
			x.Violations = append(x.Violations, fmt.Sprintf("PATHQUERY: open request %q: dialled path/query %q?%q differ from the supplied %q?%q", clip(body), u.EscapedPath(), u.RawQuery, in.EscapedPath(), in.RawQuery))
		}
	}
	if rec.Code != 200 && rec.Code != 400 && rec.Code != 500 {
		x.Violations = append(x.Violations, fmt.Sprintf("STATUS: open request %q answered %d", clip(body), rec.Code))
	}
	return x
}

func clip(s string) string {
	if len(s) > 80 {
		return s[:40] + "…" + s[len(s)-20:]
	}
	return s
}

func main() {
	vx.EnumMain(&vx.Enum{
		Property: "C13", Name: "shimurl", Init: initHandlers,
		Rule:  "cases = ({all strings of length <= 6 (quick) / 7 (thorough) over the alphabet a:/?#@[]%.1\\} + structured grammar scheme x authority x path x query x fragment + hand list) x backend host {with port, without port} + non-shim paths; non-trivial = the agent attempted a websocket dial (or a non-shim path case)",
		Total: total,
		Eval:  eval,
		Describe: func(tier string, i int) string {
			k, h, b := caseOf(tier, i)
			return fmt.Sprintf("%s host=%s body=%q", k, hosts[h], clip(b))
		},
	})
}

// lead gives a relative path the leading slash it gets once a host is in front of it.
func lead(p string) string {
	if !strings.HasPrefix(p, "/") {
		return "/" + p
	}
	return p
}
