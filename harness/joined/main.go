// Harness joined: the stand-alone proxy (server/ main()) and the agent (agent/
// main()) linked into one explored process: the agent's HTTP client reaches the
// proxy's handler through a loop-back transport (one controlled thread per
// request, response body through a pipe), clients call the proxy's handler
// directly, the backend is a scripted transport. Whole-system schedules for
// C01 / C04: every client must get the response the backend produced for its
// own request, each request must reach the backend exactly once.
package main

import (
	"bytes"
	"flag"
	"fmt"
	"io"
	"net"
	"net/http"
	"net/http/httptest"
	"strings"
	"time"
	"unsafe"

	vagent "github.com/google/inverting-proxy/zz_verif/p/vagent"
	vserver "github.com/google/inverting-proxy/zz_verif/p/vserver"
	"github.com/google/inverting-proxy/zz_verif/venv"
	"github.com/google/inverting-proxy/zz_verif/vh"
	"github.com/google/inverting-proxy/zz_verif/vio"
	"github.com/google/inverting-proxy/zz_verif/vs"
	"github.com/google/inverting-proxy/zz_verif/vx"
)

var prop = flag.String("prop", "C01", "property id to report under")

type world struct {
	handler     http.Handler
	calls       map[string]int
	failUploads int // the next n response uploads break after a few bytes
}

// loopRT delivers a request to the proxy's handler in a new controlled thread.
type loopRT struct{ w *world }

type pipeRW struct {
	hdr    http.Header
	status int
	wrote  bool
	pw     *vio.PipeWriter
	ready  *bool
	snap   http.Header
}

func (p *pipeRW) Header() http.Header { return p.hdr }
func (p *pipeRW) WriteHeader(c int) {
	if p.wrote {
		return
	}
	p.wrote = true
	p.status = c
	p.snap = p.hdr.Clone()
	vs.Touch(unsafe.Pointer(p))
	*p.ready = true
}
func (p *pipeRW) Write(b []byte) (int, error) {
	if !p.wrote {
		p.WriteHeader(200)
	}
	return p.pw.Write(b)
}
func (p *pipeRW) Flush() {}

func (l loopRT) RoundTrip(r *http.Request) (*http.Response, error) {
	w := l.w
	vs.Wait("proxy is serving", unsafe.Pointer(w), func() bool { return w.handler != nil })
	if r.Method == "POST" && strings.HasSuffix(r.URL.Path, "agent/response") {
		vs.Touch(unsafe.Pointer(w))
		if w.failUploads > 0 {
			w.failUploads--
			buf := make([]byte, 8)
			r.Body.Read(buf)
			r.Body.Close()
			return nil, fmt.Errorf("scripted: connection reset during the upload")
		}
	}
	pr, pw := vio.Pipe()
	ready := false
	rw := &pipeRW{hdr: http.Header{}, pw: pw, ready: &ready}
	// the server side sees its own copy of the request
	sr := r.Clone(r.Context())
	sr.RequestURI = r.URL.RequestURI()
	if r.Body == nil {
		sr.Body = http.NoBody
	}
	vs.Go(func() {
		w.handler.ServeHTTP(rw, sr)
		if !rw.wrote {
			rw.WriteHeader(200)
		}
		pw.Close()
	})
	vs.Wait("response header from the proxy", unsafe.Pointer(rw), func() bool { return ready })
	return &http.Response{StatusCode: rw.status, Status: fmt.Sprintf("%d %s", rw.status, http.StatusText(rw.status)), Proto: "HTTP/1.1", ProtoMajor: 1, ProtoMinor: 1,
		Header: rw.snap, Body: pr, ContentLength: -1, Request: r}, nil
}

type backendRT struct{ w *world }

func (b backendRT) RoundTrip(r *http.Request) (*http.Response, error) {
	var body []byte
	if r.Body != nil {
		body, _ = io.ReadAll(r.Body)
		r.Body.Close()
	}
	vs.Point("backend round trip", nil)
	vs.Touch(unsafe.Pointer(b.w))
	tok := r.Header.Get("X-Tok")
	b.w.calls[tok+" "+r.Method+" "+r.URL.RequestURI()+" "+string(body)]++
	var n int
	fmt.Sscanf(tok, "tok%d", &n)
	payload := "echo:" + r.URL.Path + ":" + string(body)
	hdr := http.Header{"X-Tok": {tok}, "Trailer": {"X-Tr"}}
	return &http.Response{StatusCode: 200 + n, Proto: "HTTP/1.1", ProtoMajor: 1, ProtoMinor: 1, Header: hdr,
		Body: io.NopCloser(bytes.NewReader([]byte(payload))), ContentLength: -1, Trailer: http.Header{"X-Tr": {tok}}, Request: r}, nil
}

func tok(i int) string { return fmt.Sprintf("tok%d", i) }

func scenario(name string, K int, sizes []int, pb int) vx.Scenario {
	return scenarioF(name, K, sizes, pb, 0)
}

// scenarioF: the first `fail` response uploads break (all three attempts of whichever request uploads first).
func scenarioF(name string, K int, sizes []int, pb int, fail int) vx.Scenario {
	// virtual time stops before the proxy's 30 s pending-list timeout: the run ends when every
	// client was served and the agent is parked in its long poll
	return vx.Scenario{Name: name, PB: pb, Delay: true, MaxSteps: 20000, MaxTime: time.Second,
		Setup: func(s *vs.Sched) func(*vs.Result) vx.Exec {
			w := &world{calls: map[string]int{}, failUploads: fail}
			hooks := venv.Reset()
			hooks.Serve = func(l net.Listener, h http.Handler) error {
				vs.Touch(unsafe.Pointer(w))
				w.handler = h
				vh.Forever("http.Serve")
				return nil
			}
			hooks.Client = &http.Client{Transport: loopRT{w}}
			hooks.Backend = backendRT{w}
			vh.SetArgs("both", "--port=0", "--proxy=http://proxy.test/", "--backend=b1", "--host=backend.test:80", "--proxy-timeout=0s")
			vserver.ResetForTest()
			vagent.ResetForTest()
			s.DaemonThread("proxy-main", func() { vserver.Main() })
			s.DaemonThread("agent-main", func() { vagent.Main(); vs.Exit(0) })
			recs := make([]*vh.Rec, K)
			bodies := make([]string, K)
			for i := 0; i < K; i++ {
				i := i
				recs[i] = vh.NewRec()
				bodies[i] = strings.Repeat(fmt.Sprintf("<%s>", tok(i)), sizes[i%len(sizes)]/6+1)[:sizes[i%len(sizes)]]
				s.Thread(fmt.Sprintf("client%d", i), func() {
					vs.Wait("proxy is serving", unsafe.Pointer(w), func() bool { return w.handler != nil })
					r := httptest.NewRequest("POST", "/p/"+tok(i)+"?q="+tok(i), strings.NewReader(bodies[i]))
					r.Header.Set("X-Tok", tok(i))
					w.handler.ServeHTTP(recs[i], r)
				})
			}
			return func(r *vs.Result) vx.Exec {
				var x vx.Exec
				for _, p := range r.Panics {
					x.Violations = append(x.Violations, "PANIC: "+p)
				}
				for _, rc := range r.Races {
					x.Violations = append(x.Violations, fmt.Sprintf("RACE: unsynchronised concurrent use of %s by %s and %s", rc.Object, rc.A, rc.B))
				}
				if r.Exited {
					x.Violations = append(x.Violations, fmt.Sprintf("EXIT: a program exited (code %d): %v", r.ExitCode, venv.Hooks.FatalLog))
				}
				var obs []string
				for i, rec := range recs {
					t := tok(i)
					obs = append(obs, fmt.Sprintf("c%d:%d/%s/%s", i, rec.Code, rec.Hdr.Get("X-Tok"), rec.Trailers().Get("X-Tr")))
					if !rec.Wrote && fail > 0 {
						// a request whose upload failed on every attempt legitimately stays unanswered;
						// it must still have reached the backend at most once, unaltered
						n := 0
						for k, c := range w.calls {
							if strings.HasPrefix(k, t+" ") {
								n += c
								if k != t+" POST /p/"+t+"?q="+t+" "+bodies[i] {
									x.Violations = append(x.Violations, fmt.Sprintf("ALTERED: the backend received %q for client %d", vh.Short(k), i))
								}
							}
						}
						if n > 1 {
							x.Violations = append(x.Violations, fmt.Sprintf("FORWARDS: client %d's request reached the backend %d times", i, n))
						}
						continue
					}
					if !rec.Wrote {
						if len(r.Panics) == 0 && !r.Horizon && !r.Exited {
							x.Violations = append(x.Violations, fmt.Sprintf("HANG: client %d never received a response; blocked: %s", i, blocked(r)))
						}
						continue
					}
					want := "echo:/p/" + t + ":" + bodies[i]
					if rec.Code != 200+i || rec.Snapshot.Get("X-Tok") != t || rec.Body.String() != want || rec.Trailers().Get("X-Tr") != t {
						x.Violations = append(x.Violations, fmt.Sprintf("MIXUP: client %d got status %d, X-Tok=%q, body %q, trailer %q; its own response is %d, %q, %q, %q", i, rec.Code, rec.Snapshot.Get("X-Tok"), vh.Short(rec.Body.String()), rec.Trailers().Get("X-Tr"), 200+i, t, vh.Short(want), t))
					}
					key := t + " POST /p/" + t + "?q=" + t + " " + bodies[i]
					if n := w.calls[key]; n != 1 && len(r.Panics) == 0 && !r.Horizon {
						x.Violations = append(x.Violations, fmt.Sprintf("FORWARDS: the backend received client %d's request %d times (unaltered)", i, n))
					}
				}
				if len(w.calls) > K && fail == 0 {
					x.Violations = append(x.Violations, fmt.Sprintf("FORWARDS: the backend saw %d distinct requests for %d clients", len(w.calls), K))
				}
				x.Obs = strings.Join(obs, " ")
				return x
			}
		}}
}

func blocked(r *vs.Result) string {
	var p []string
	for _, b := range r.Blocked {
		if !b.Daemon {
			p = append(p, b.Thread+" in "+b.Op)
		}
	}
	return strings.Join(p, "; ")
}

func main() {
	flag.Parse()
	vx.Main(&vx.Harness{Property: *prop, Name: "joined", Scenarios: func(tier string) []vx.Scenario {
		if tier == "thorough" {
			return []vx.Scenario{scenario("K1", 1, []int{5000}, 4), scenario("K2", 2, []int{0, 5000}, 3), scenario("K3", 3, []int{1, 0, 40000}, 2),
				scenarioF("K1-upload-fails", 1, []int{100}, 2, 3), scenarioF("K2-first-upload-fails", 2, []int{100, 50}, 2, 3)}
		}
		return []vx.Scenario{scenario("K1", 1, []int{5000}, 3), scenario("K2", 2, []int{0, 5000}, 2), scenario("K3", 3, []int{1, 0, 40000}, 1),
			scenarioF("K1-upload-fails", 1, []int{100}, 1, 3), scenarioF("K2-first-upload-fails", 2, []int{100, 50}, 1, 3)}
	}})
}
