// Harness agentw: the agent program itself (agent/agent.go, through its main())
// with a scripted proxy (the http.Client's transport), a scripted backend (the
// reverse proxy's transport), a signal source and a health endpoint, all as
// controlled threads on the virtual clock.
package main

import (
	"bytes"
	"encoding/json"
	"errors"
	"fmt"
	"io"
	"net"
	"net/http"
	"net/url"
	"os"
	"sort"
	"strings"
	"syscall"
	"time"
	"unsafe"

	"github.com/google/inverting-proxy/agent/utils"
	vagent "github.com/google/inverting-proxy/zz_verif/p/vagent"
	"github.com/google/inverting-proxy/zz_verif/venv"
	"github.com/google/inverting-proxy/zz_verif/vh"
	"github.com/google/inverting-proxy/zz_verif/vs"
	"github.com/google/inverting-proxy/zz_verif/vtime"
	"github.com/google/inverting-proxy/zz_verif/vws"
	"github.com/google/inverting-proxy/zz_verif/vx"
)

// listReply is one answer of the pending-list endpoint.
type listReply struct {
	ids           []string
	kind          string        // "" ok, "err" transport error, "500", "garbage", "huge"
	after         string        // serve this reply only once the response for this id has been uploaded
	afterAttempts string        // serve this reply only once three upload attempts for this id have been made
	delay         time.Duration // the long poll takes this long (virtual time: everything else has gone quiet by then)
	settle        time.Duration // virtual time to let pass after the "after" condition holds
}

// fetchPlan says how the request endpoint answers for one request ID.
type fetchPlan struct {
	kind    string        // "" ok, "404", "503x3", "503x1", "err", "notrequest", "nostart", "badstart", "short"
	req     string        // wire-format request to serve (default: built from the id)
	reqFn   func() string // computed when the agent fetches (depends on earlier answers)
	user    string
	userSet bool
	tries   int
}

// backendPlan says how the backend answers one request (keyed by X-Tok).
type backendPlan struct {
	kind     string // "" ok, "connerr", "errafterheaders", "errafterbody", "slow"
	status   int
	header   http.Header
	body     string
	latency  time.Duration
	chunks   []string    // kind "lockstep"
	trailer  http.Header // undeclared trailers
	noLength bool        // the response has no Content-Length
}

type backendCall struct {
	tok    string
	method string
	target string
	host   string
	header http.Header
	body   string
	at     time.Duration
}

type upload struct {
	id   string
	raw  []byte
	at   time.Duration
	done bool
}

type world struct {
	s           *vs.Sched
	lists       []listReply
	afterLists  string // "block" (default) or "err": what the list endpoint does once the script is used up
	fetch       map[string]*fetchPlan
	backend     map[string]*backendPlan
	uploadFault map[string]string // id -> "503x3" | "err"

	cancelled   []string  // requests whose round trip to the backend was cancelled
	killedBy    os.Signal // a signal nobody was registered for ended the process
	flushed     int       // lock-step backend: chunks handed to the agent so far
	listEnds    []time.Duration
	listTimes   []time.Duration
	listStarted int
	fetchCount  map[string]int
	calls       []backendCall
	uploads     []*upload
	health      []bool // scripted health answers; last one repeats
	healthFail  int    // how a failing check fails: 0 = 500, -1 = connection refused, otherwise that status
	healthCalls []time.Duration
	hooks       *venv.H
	mainDone    bool
	ws          *vws.World
	wsServer    []*vws.Conn
	wsClient    []*vws.Conn
}

func newWorld(s *vs.Sched) *world {
	w := &world{s: s, fetch: map[string]*fetchPlan{}, backend: map[string]*backendPlan{}, uploadFault: map[string]string{}, fetchCount: map[string]int{}}
	w.hooks = venv.Reset()
	w.hooks.Client = &http.Client{Transport: proxyRT{w}}
	w.hooks.Backend = backendRT{w}
	w.hooks.HTTPGet = w.healthGet
	w.ws = vws.W()
	w.ws.OnDial = func(u *url.URL, h http.Header) (*vws.Conn, error) {
		c, srv := vws.Pair("agent-ws", "backend-ws")
		w.wsServer = append(w.wsServer, srv)
		w.wsClient = append(w.wsClient, c)
		return c, nil
	}
	return w
}

func (w *world) touch() { vs.Touch(unsafe.Pointer(w)) }

func resp(code int, hdr http.Header, body []byte, req *http.Request) *http.Response {
	if hdr == nil {
		hdr = http.Header{}
	}
	return &http.Response{StatusCode: code, Status: fmt.Sprintf("%d %s", code, http.StatusText(code)), Proto: "HTTP/1.1", ProtoMajor: 1, ProtoMinor: 1,
		Header: hdr, Body: io.NopCloser(bytes.NewReader(body)), ContentLength: int64(len(body)), Request: req}
}

func bodyFor(id string) string {
	if len(id) > 3 {
		return ""
	}
	return strings.Repeat("<body-of-"+id+">", 3)
}

func requestFor(id string) string {
	b := bodyFor(id)
	if b == "" {
		return fmt.Sprintf("GET /p/%s?q=1 HTTP/1.1\r\nHost: client.example\r\nX-Tok: %s\r\nAccept: */*\r\n\r\n", id, id)
	}
	return fmt.Sprintf("POST /p/%s?q=1 HTTP/1.1\r\nHost: client.example\r\nX-Tok: %s\r\nAccept: */*\r\nContent-Length: %d\r\n\r\n%s", id, id, len(b), b)
}

// ---- the proxy as the agent's transport ----

type proxyRT struct{ w *world }

func (p proxyRT) RoundTrip(r *http.Request) (*http.Response, error) {
	w := p.w
	if r.Body != nil {
		defer r.Body.Close()
	}
	// a network round trip is a blocking operation
	vs.Point("proxy round trip "+r.URL.Path, nil)
	id := r.Header.Get(utils.HeaderRequestID)
	switch {
	case strings.HasSuffix(r.URL.Path, utils.PendingPath):
		return w.list(r)
	case strings.HasSuffix(r.URL.Path, utils.RequestPath):
		return w.fetchReq(r, id)
	case strings.HasSuffix(r.URL.Path, utils.ResponsePath):
		return w.upload(r, id)
	}
	return resp(404, nil, nil, r), nil
}

type timeoutErr struct{}

func (timeoutErr) Error() string   { return "i/o timeout" }
func (timeoutErr) Timeout() bool   { return true }
func (timeoutErr) Temporary() bool { return true }

func (w *world) list(r *http.Request) (*http.Response, error) {
	w.touch()
	w.listTimes = append(w.listTimes, w.s.Now())
	i := w.listStarted
	w.listStarted++
	if r.Header.Get(utils.HeaderBackendID) == "" {
		return resp(400, nil, []byte("no backend id"), r), nil
	}
	if i >= len(w.lists) {
		if w.afterLists == "err" {
			return nil, errors.New("scripted: proxy unreachable")
		}
		// long poll with nothing pending: the proxy answers after its own timeout; model as never
		vs.Wait("proxy: long poll (script used up)", unsafe.Pointer(w), func() bool { return r.Context().Err() != nil })
		return nil, r.Context().Err()
	}
	l := w.lists[i]
	if l.delay > 0 {
		vtime.Sleep(l.delay)
	}
	defer func() {
		for len(w.listEnds) <= i {
			w.listEnds = append(w.listEnds, 0)
		}
		w.listEnds[i] = w.s.Now()
	}()
	if l.after != "" {
		vs.Wait("proxy: long poll until "+l.after+" is answered", unsafe.Pointer(w), func() bool { return w.uploadFor(l.after) != nil })
	}
	if l.settle > 0 && l.after != "" {
		vtime.Sleep(l.settle)
	}
	if l.afterAttempts != "" {
		vs.Wait("proxy: long poll until the upload for "+l.afterAttempts+" has failed", unsafe.Pointer(w), func() bool {
			n := 0
			for _, u := range w.uploads {
				if u.id == l.afterAttempts {
					n++
				}
			}
			return n >= 3
		})
	}
	switch l.kind {
	case "err":
		return nil, errors.New("scripted: connection refused")
	case "timeout":
		// what http.Client.Timeout / a dial timeout produce: an error whose Timeout() is true
		return nil, &net.OpError{Op: "read", Net: "tcp", Err: timeoutErr{}}
	case "refused":
		return nil, &net.OpError{Op: "dial", Net: "tcp", Err: syscall.ECONNREFUSED}
	case "eof":
		return nil, io.ErrUnexpectedEOF
	case "500":
		return resp(500, nil, []byte("boom"), r), nil
	case "503empty":
		return resp(503, nil, nil, r), nil
	case "401empty":
		return resp(401, nil, nil, r), nil
	case "garbage":
		return resp(200, nil, []byte("{not json"), r), nil
	case "huge":
		return resp(200, nil, bytes.Repeat([]byte("x"), 2<<20), r), nil
	}
	b, _ := json.Marshal(l.ids)
	return resp(200, nil, b, r), nil
}

func (w *world) fetchReq(r *http.Request, id string) (*http.Response, error) {
	w.touch()
	w.fetchCount[id]++
	fp := w.fetch[id]
	if fp == nil {
		fp = &fetchPlan{}
	}
	fp.tries++
	hdr := http.Header{}
	user := fp.user
	if user == "" && !fp.userSet {
		user = "user-" + id + "@example.com"
	}
	hdr.Set(utils.HeaderUserID, user)
	hdr.Set(utils.HeaderRequestStartTime, vs.Epoch.Add(w.s.Now()).Format(time.RFC3339Nano))
	body := fp.req
	if fp.reqFn != nil {
		body = fp.reqFn()
	}
	if body == "" {
		body = requestFor(id)
	}
	switch fp.kind {
	case "404":
		return resp(404, nil, []byte("not found"), r), nil
	case "503x3":
		return resp(503, nil, nil, r), nil
	case "503x1":
		if fp.tries == 1 {
			return resp(503, nil, nil, r), nil
		}
	case "err":
		return nil, errors.New("scripted: reset")
	case "notrequest":
		body = "this is not an HTTP request\r\n\r\n"
	case "nostart":
		hdr.Del(utils.HeaderRequestStartTime)
	case "badstart":
		hdr.Set(utils.HeaderRequestStartTime, "yesterday")
	case "short":
		body = "POST /p/" + id + " HTTP/1.1\r\nHost: client.example\r\nX-Tok: " + id + "\r\nContent-Length: 100\r\n\r\nonly-a-few-bytes"
	}
	return resp(200, hdr, []byte(body), r), nil
}

func (w *world) upload(r *http.Request, id string) (*http.Response, error) {
	w.touch()
	u := &upload{id: id, at: w.s.Now()}
	w.uploads = append(w.uploads, u)
	switch w.uploadFault[id] {
	case "503x3":
		io.Copy(io.Discard, r.Body)
		return resp(503, nil, nil, r), nil
	case "err":
		buf := make([]byte, 10)
		r.Body.Read(buf)
		return nil, errors.New("scripted: broken pipe")
	case "503once", "erronce":
		n := 0
		for _, o := range w.uploads {
			if o.id == id {
				n++
			}
		}
		if n == 1 {
			// the first attempt: read everything, take a moment (everything else that can happen meanwhile
			// does), then fail
			io.Copy(io.Discard, r.Body)
			vtime.Sleep(20 * time.Millisecond)
			if w.uploadFault[id] == "erronce" {
				return nil, errors.New("scripted: connection reset by peer")
			}
			return resp(503, nil, nil, r), nil
		}
	}
	// the proxy reads the upload as it arrives: what it has seen so far is visible to the scripted backend
	buf := make([]byte, 32<<10)
	for {
		n, err := r.Body.Read(buf)
		if n > 0 {
			w.touch()
			u.raw = append(u.raw, buf[:n]...)
		}
		if err != nil {
			break
		}
	}
	w.touch()
	u.done = true
	return resp(200, nil, nil, r), nil
}

type lateTrailerBody struct {
	data    []byte
	resp    *http.Response
	trailer http.Header
}

func (b *lateTrailerBody) Read(p []byte) (int, error) {
	if len(b.data) > 0 {
		n := copy(p, b.data)
		b.data = b.data[n:]
		return n, nil
	}
	b.resp.Trailer = b.trailer
	return 0, io.EOF
}
func (b *lateTrailerBody) Close() error { return nil }

// lockBody is a backend response body in lock-step with the proxy: chunk i is only produced once the
// proxy has seen chunk i-1 in the upload for the same request.
type lockBody struct {
	w      *world
	tok    string
	chunks []string
	i      int
	rest   string
}

func (b *lockBody) seen(marker string) bool {
	for _, u := range b.w.uploads {
		if u.id == b.tok && strings.Contains(string(u.raw), marker) {
			return true
		}
	}
	return false
}

func (b *lockBody) Read(p []byte) (int, error) {
	if b.rest == "" {
		if b.i >= len(b.chunks) {
			return 0, io.EOF
		}
		if b.i > 0 {
			prev := b.chunks[b.i-1]
			b.w.flushed = b.i
			vs.Wait(fmt.Sprintf("backend: waits until the proxy has seen chunk %d of the response to %s", b.i, b.tok), unsafe.Pointer(b.w), func() bool { return b.seen(prev[len(prev)-11:]) })
		}
		b.rest = b.chunks[b.i]
		b.i++
		b.w.touch()
	}
	n := copy(p, b.rest)
	b.rest = b.rest[n:]
	return n, nil
}
func (b *lockBody) Close() error { return nil }

// ---- the backend as the reverse proxy's transport ----

type backendRT struct{ w *world }

type errBody struct {
	data []byte
	err  error
}

func (e *errBody) Read(p []byte) (int, error) {
	if len(e.data) > 0 {
		n := copy(p, e.data)
		e.data = e.data[n:]
		return n, nil
	}
	return 0, e.err
}
func (e *errBody) Close() error { return nil }

func (b backendRT) RoundTrip(r *http.Request) (*http.Response, error) {
	w := b.w
	var body []byte
	if r.Body != nil {
		body, _ = io.ReadAll(r.Body)
		r.Body.Close()
	}
	vs.Point("backend round trip", nil)
	w.touch()
	tok := r.Header.Get("X-Tok")
	w.calls = append(w.calls, backendCall{tok: tok, method: r.Method, target: r.URL.RequestURI(), host: r.Host, header: r.Header.Clone(), body: string(body), at: w.s.Now()})
	bp := w.backend[tok]
	if bp == nil {
		bp = &backendPlan{}
	}
	if bp.latency > 0 {
		// the backend works for a while; a request whose context is cancelled meanwhile fails like a
		// real round trip would
		fired := false
		cancel := w.s.AddTimer(bp.latency, "backend latency", func() { fired = true })
		vs.Wait("backend: working on "+tok, nil, func() bool { return fired || r.Context().Err() != nil })
		cancel()
		if !fired {
			w.touch()
			w.cancelled = append(w.cancelled, tok)
			return nil, r.Context().Err()
		}
	}
	status := bp.status
	if status == 0 {
		status = 200
	}
	hdr := http.Header{}
	for k, v := range bp.header {
		hdr[k] = v
	}
	hdr.Set("X-Tok", tok)
	payload := bp.body
	if payload == "" {
		payload = "response-for-" + tok
	}
	if bp.trailer != nil {
		// trailers the backend did not announce in a Trailer field (gRPC style)
		// as net/http does it: the Trailer map only appears when the body has been read to its end
		rp := resp(status, hdr, nil, r)
		rp.ContentLength = -1
		rp.Body = &lateTrailerBody{data: []byte(payload), resp: rp, trailer: bp.trailer.Clone()}
		return rp, nil
	}
	switch bp.kind {
	case "lockstep":
		rp := resp(status, hdr, nil, r)
		rp.ContentLength = -1
		rp.Body = &lockBody{w: w, tok: tok, chunks: bp.chunks}
		return rp, nil
	case "connerr":
		return nil, errors.New("dial tcp: connection refused")
	case "errafterheaders":
		rp := resp(status, hdr, nil, r)
		rp.ContentLength = -1
		rp.Body = &errBody{err: errors.New("scripted: connection reset by peer")}
		return rp, nil
	case "errafterbody":
		rp := resp(status, hdr, nil, r)
		rp.ContentLength = -1
		rp.Body = &errBody{data: []byte(payload[:len(payload)/2]), err: errors.New("scripted: connection reset by peer")}
		return rp, nil
	}
	rp := resp(status, hdr, []byte(payload), r)
	if bp.noLength {
		// a backend that streams: no Content-Length
		rp.ContentLength = -1
	}
	return rp, nil
}

// ---- health endpoint ----

func (w *world) healthGet(url string) (*http.Response, error) {
	w.touch()
	i := len(w.healthCalls)
	w.healthCalls = append(w.healthCalls, w.s.Now())
	ok := true
	if len(w.health) > 0 {
		if i < len(w.health) {
			ok = w.health[i]
		} else {
			ok = w.health[len(w.health)-1]
		}
	}
	if !ok {
		switch {
		case w.healthFail < 0:
			return nil, fmt.Errorf("dial tcp backend.test:80: connect: connection refused")
		case w.healthFail > 0:
			return resp(w.healthFail, nil, []byte("starting"), nil), nil
		}
		return resp(500, nil, []byte("unhealthy"), nil), nil
	}
	return resp(200, nil, []byte("ok"), nil), nil
}

// ---- running the agent ----

func (w *world) startAgent(args ...string) {
	base := []string{"--proxy=http://proxy.test/", "--backend=b1", "--host=backend.test:80", "--proxy-timeout=0s"}
	vh.SetArgs("agent", append(base, args...)...)
	vagent.ResetForTest()
	w.s.Thread("main", func() {
		vagent.Main()
		w.touch()
		w.mainDone = true
		// returning from main ends the process
		vs.Exit(0)
	})
}

// signal delivers sig to whatever the agent registered with signal.Notify.
func (w *world) signal(sig os.Signal) bool {
	rcv := venv.Receivers(sig)
	if len(rcv) == 0 {
		// nobody listens: the default action of SIGINT / SIGTERM ends the process
		w.killedBy = sig
		vs.Exit(128 + int(sig.(syscall.Signal)))
		return false
	}
	for _, c := range rcv {
		ch := c
		// signal.Notify never blocks: it drops the signal if the channel is full
		switch vs.Select(true, vs.SendCase(ch)(sig)) {
		}
	}
	return true
}

// ---- observation helpers ----

func (w *world) callsFor(tok string) int {
	n := 0
	for _, c := range w.calls {
		if c.tok == tok {
			n++
		}
	}
	return n
}

func (w *world) uploadFor(id string) *upload {
	var last *upload
	for _, u := range w.uploads {
		if u.id == id && u.done {
			last = u
		}
	}
	return last
}

type parsed struct {
	status  int
	header  http.Header
	body    string
	trailer http.Header
	err     error
}

func parseUpload(raw []byte) parsed {
	rp, err := http.ReadResponse(vh.BufReader(raw), nil)
	if err != nil {
		return parsed{err: err}
	}
	b, err := io.ReadAll(rp.Body)
	return parsed{status: rp.StatusCode, header: rp.Header, body: string(b), trailer: rp.Trailer, err: err}
}

func baseViolations(r *vs.Result, x *vx.Exec) {
	for _, p := range r.Panics {
		x.Violations = append(x.Violations, "PANIC: "+p)
	}
	for _, rc := range r.Races {
		x.Violations = append(x.Violations, fmt.Sprintf("RACE: unsynchronised concurrent use of %s by %s and %s", rc.Object, rc.A, rc.B))
	}
}

func sortedKeys(m map[string]int) []string {
	var k []string
	for s := range m {
		k = append(k, s)
	}
	sort.Strings(k)
	return k
}
