package main

import (
	"encoding/json"
	"flag"
	"fmt"
	"math"
	"net/http"
	"sort"
	"strings"
	"syscall"
	"time"

	"github.com/google/inverting-proxy/zz_verif/vs"
	"github.com/google/inverting-proxy/zz_verif/vtime"
	"github.com/google/inverting-proxy/zz_verif/vx"
)

var prop = flag.String("prop", "C04", "C01|C02|C04|C05|C07|C08|C09|C10|C20")
var report = flag.String("report", "", "property id to report under (default: -prop)")

func main() {
	flag.Parse()
	if *report == "" {
		*report = *prop
	}
	vx.Main(&vx.Harness{Property: *report, Name: "agentw-" + strings.ToLower(*prop), Scenarios: scenarios})
}

func scenarios(tier string) []vx.Scenario {
	th := tier == "thorough"
	switch *prop {
	case "C04":
		return c04Scenarios(th)
	case "C01", "C02":
		// whole agent between the proxy's wire protocol and the backend: concurrent requests
		// must each be fetched, forwarded and uploaded under their own id with their own response
		pb := 2
		out := []vx.Scenario{
			c04Scenario([]listReply{{ids: []string{"a", "b"}}}, nil, pb, false),
			c04Scenario([]listReply{{ids: []string{"a"}}, {ids: []string{"b"}}}, nil, pb, false),
			c04Scenario([]listReply{{ids: []string{"a", "b"}}}, map[string]string{"a": "upload-err"}, pb, false),
			c04Scenario(slowHist([]listReply{{ids: []string{"a", "b"}}, {ids: []string{"a"}}}), map[string]string{"b": "upload-503x3"}, 0, true),
		}
		out = append(out, c01History("503once", pb), c01History("erronce", pb), c01History("", 0))
		if th {
			out = append(out, c04Scenario([]listReply{{ids: []string{"a", "b", "c"}}}, nil, 2, false),
				c04Scenario([]listReply{{ids: []string{"a", "b"}}}, nil, 3, false),
				c04Scenario([]listReply{{ids: []string{"a"}}, {ids: []string{"b", "c"}}}, nil, 2, false))
		}
		return out
	case "C05":
		return c05Scenarios(th)
	case "C10":
		return c10Scenarios(th)
	case "C08":
		return c08Scenarios(th)
	case "C09":
		return c09Scenarios(th)
	case "C07":
		return c07Scenarios(th)
	case "C20":
		return c20Scenarios(th)
	}
	return nil
}

// ---------------- C04: at most once ----------------

func histName(h []listReply) string {
	var p []string
	for _, l := range h {
		if l.kind != "" {
			p = append(p, l.kind)
		} else if len(l.ids) > 6 {
			p = append(p, fmt.Sprintf("bulk(%d)", len(l.ids)))
		} else {
			p = append(p, "["+strings.Join(l.ids, ",")+"]")
		}
	}
	return strings.Join(p, " ")
}

func c04Scenario(h []listReply, faults map[string]string, pb int, single bool) vx.Scenario {
	name := "c04/" + histName(h)
	if len(h) > 0 && h[0].delay > 0 {
		name = "c04/slow/" + histName(h)
	} else {
		hh, ff := h, faults
		slowOf[name+faultSuffix(faults)] = func() vx.Scenario { return c04Scenario(slowHist(hh), ff, 0, true) }
	}
	for id, f := range faults {
		name += fmt.Sprintf(" %s:%s", id, f)
	}
	upFaults := map[string]string{}
	for id, f := range faults {
		if strings.HasPrefix(f, "upload-") {
			upFaults[id] = strings.TrimPrefix(f, "upload-")
		}
	}
	return vx.Scenario{Name: name, PB: pb, Delay: true, MaxSteps: 60000, Single: single,
		Setup: func(s *vs.Sched) func(*vs.Result) vx.Exec {
			w := newWorld(s)
			w.lists = h
			for id, f := range faults {
				if strings.HasPrefix(f, "upload-") {
					w.uploadFault[id] = upFaults[id]
					continue
				}
				w.fetch[id] = &fetchPlan{kind: f}
			}
			// bulk ids are not served: only their effect on the dedup window matters
			for _, l := range h {
				if len(l.ids) > 6 {
					for _, id := range l.ids {
						if len(id) > 3 {
							w.fetch[id] = &fetchPlan{kind: "404"}
						}
					}
				}
			}
			w.startAgent()
			return func(r *vs.Result) vx.Exec {
				var x vx.Exec
				baseViolations(r, &x)
				if r.Exited {
					x.Violations = append(x.Violations, fmt.Sprintf("EXIT: agent exited (code %d): %v", r.ExitCode, w.hooks.FatalLog))
				}
				listed := map[string]int{}
				window := map[string]bool{} // ids for which >=1000 distinct other ids were listed in between: re-forwarding allowed
				var order []string
				for _, l := range h {
					for _, id := range l.ids {
						listed[id]++
						order = append(order, id)
					}
				}
				// an id may legitimately be forwarded again only if at least 1000 distinct other ids came between two of its listings
				last := map[string]int{}
				for i, id := range order {
					if j, ok := last[id]; ok {
						distinct := map[string]bool{}
						for _, o := range order[j+1 : i] {
							if o != id {
								distinct[o] = true
							}
						}
						if len(distinct) >= 1000 {
							window[id] = true
						}
					}
					last[id] = i
				}
				var obs []string
				for id := range listed {
					if len(id) > 3 {
						continue // bulk filler
					}
					n := w.callsFor(id)
					obs = append(obs, fmt.Sprintf("%s:%d", id, n))
					if n > 1 && !window[id] {
						x.Violations = append(x.Violations, fmt.Sprintf("TWICE: request %s was forwarded to the backend %d times (listed %d times, dedup window not exceeded)", id, n, listed[id]))
					}
					if f := faults[id]; strings.HasPrefix(f, "upload-") {
						// the request was served: exactly one forward, whatever happens to the upload
						if n == 0 && !r.Horizon && len(r.Panics) == 0 && !r.Exited {
							x.Violations = append(x.Violations, fmt.Sprintf("NEVER: request %s was listed and served without error but never reached the backend", id))
						}
						for _, c := range w.calls {
							if c.tok == id && (c.target != "/p/"+id+"?q=1" || c.method != "POST" || c.body != bodyFor(id)) {
								x.Violations = append(x.Violations, fmt.Sprintf("WRONGREQ: backend call for %s was %s %q with body %q; the client sent POST %q with body %q", id, c.method, c.target, c.body, "/p/"+id+"?q=1", bodyFor(id)))
							}
						}
					} else if f == "" || f == "503x1" {
						if n == 0 && !r.Horizon && len(r.Panics) == 0 && !r.Exited {
							x.Violations = append(x.Violations, fmt.Sprintf("NEVER: request %s was listed and served without error but never reached the backend", id))
						}
						for _, c := range w.calls {
							if c.tok == id && (c.target != "/p/"+id+"?q=1" || c.method != "POST" || c.body != bodyFor(id)) {
								x.Violations = append(x.Violations, fmt.Sprintf("WRONGREQ: backend call for %s was %s %q with body %q; the client sent POST %q with body %q", id, c.method, c.target, c.body, "/p/"+id+"?q=1", bodyFor(id)))
							}
						}
						if n >= 1 {
							u := w.uploadFor(id)
							if u == nil {
								if !r.Horizon && len(r.Panics) == 0 && !r.Exited {
									x.Violations = append(x.Violations, fmt.Sprintf("NOUPLOAD: response for request %s was never uploaded", id))
								}
							} else if p := parseUpload(u.raw); p.err != nil || p.body != "response-for-"+id || p.header.Get("X-Tok") != id {
								x.Violations = append(x.Violations, fmt.Sprintf("WRONGRESP: upload for %s carries %q (err %v)", id, p.body, p.err))
							}
						}
					} else if n > 0 && f != "503x1" {
						x.Violations = append(x.Violations, fmt.Sprintf("GHOST: request %s could not be fetched (%s) but the backend was called", id, f))
					}
				}
				sortStrings(obs)
				x.Obs = strings.Join(obs, " ") + fmt.Sprintf(" lists=%d", w.listStarted)
				return x
			}
		}}
}

// c01History: a request with a large response and an unannounced trailer first, then two small requests at
// the same time, one of whose uploads fails once and is retried, then one more: every acknowledged upload
// carries exactly its own request's response - status, token, body and trailers.
func c01History(retry string, pb int) vx.Scenario {
	return vx.Scenario{Name: "c01/history/big-then-two-with-" + retry, PB: pb, Delay: true, MaxSteps: 60000, Single: pb == 0,
		Setup: func(s *vs.Sched) func(*vs.Result) vx.Exec {
			w := newWorld(s)
			// the two concurrent requests are listed a moment after the first upload was acknowledged: whatever
			// the agent does when an upload ends has happened by then
			w.lists = []listReply{{ids: []string{"z"}}, {ids: []string{"a", "b"}, after: "z", settle: 50 * time.Millisecond}, {ids: []string{"c"}, after: "a"}}
			big := strings.Repeat("Z", 6000)
			w.backend["z"] = &backendPlan{body: big, trailer: http.Header{"X-Checksum": {"checksum-of-z"}}}
			w.backend["b"] = &backendPlan{noLength: true}
			w.backend["c"] = &backendPlan{noLength: true}
			w.uploadFault["a"] = retry
			w.startAgent()
			return func(r *vs.Result) vx.Exec {
				var x vx.Exec
				baseViolations(r, &x)
				if r.Exited {
					x.Violations = append(x.Violations, fmt.Sprintf("EXIT: agent exited (code %d)", r.ExitCode))
				}
				var obs []string
				for _, id := range []string{"z", "a", "b", "c"} {
					u := w.uploadFor(id)
					if u == nil {
						if !r.Horizon && len(r.Panics) == 0 && !r.Exited {
							x.Violations = append(x.Violations, fmt.Sprintf("NOUPLOAD: the response to request %s was never uploaded completely", id))
						}
						continue
					}
					p := parseUpload(u.raw)
					wantBody, wantTr := "response-for-"+id, ""
					if id == "z" {
						wantBody, wantTr = big, "checksum-of-z"
					}
					obs = append(obs, fmt.Sprintf("%s:%d/%s/%d/%q", id, p.status, p.header.Get("X-Tok"), len(p.body), p.trailer.Get("X-Checksum")))
					if p.err != nil || p.status != 200 || p.header.Get("X-Tok") != id || p.body != wantBody {
						x.Violations = append(x.Violations, fmt.Sprintf("MIXUP: the acknowledged upload for request %s carries status %d, X-Tok %q, a body of %d bytes starting %q (err %v); its own response is 200, %q, %d bytes", id, p.status, p.header.Get("X-Tok"), len(p.body), clipS(p.body), p.err, id, len(wantBody)))
					}
					if got := p.trailer.Get("X-Checksum"); got != wantTr {
						x.Violations = append(x.Violations, fmt.Sprintf("MIXUP: the upload for request %s carries the trailer X-Checksum=%q, its backend response has %q", id, got, wantTr))
					}
				}
				x.Obs = strings.Join(obs, " ")
				return x
			}
		}}
}

func clipS(s string) string {
	if len(s) > 24 {
		return s[:24] + "..."
	}
	return s
}

func faultSuffix(faults map[string]string) string {
	s := ""
	for id, f := range faults {
		s += fmt.Sprintf(" %s:%s", id, f)
	}
	return s
}

func sortStrings(a []string) {
	for i := range a {
		for j := i + 1; j < len(a); j++ {
			if a[j] < a[i] {
				a[i], a[j] = a[j], a[i]
			}
		}
	}
}

// slowHist returns the history with one virtual second before every reply.
func slowHist(h []listReply) []listReply {
	o := make([]listReply, len(h))
	for i, l := range h {
		l.delay = time.Second
		o[i] = l
	}
	return o
}

var slowOf = map[string]func() vx.Scenario{}

func slow(sc vx.Scenario) vx.Scenario { return slowOf[sc.Name]() }

func bulk(n int, tag string) listReply {
	ids := make([]string, n)
	for i := range ids {
		ids[i] = fmt.Sprintf("bulk-%s-%04d", tag, i)
	}
	return listReply{ids: ids}
}

func c04Scenarios(th bool) []vx.Scenario {
	alphabet := []listReply{{ids: []string{}}, {ids: []string{"a"}}, {ids: []string{"b"}}, {ids: []string{"a", "b"}}, {ids: []string{"b", "a"}}, {ids: []string{"a", "a"}}, {ids: []string{"a", "b", "c"}}, {kind: "err"}}
	depth := 2
	pb := 2
	if th {
		depth = 3
		pb = 3
	}
	var out []vx.Scenario
	var rec func(prefix []listReply)
	rec = func(prefix []listReply) {
		if len(prefix) > 0 {
			// histories without any id are trivial
			any := false
			for _, l := range prefix {
				if len(l.ids) > 0 {
					any = true
				}
			}
			if any {
				out = append(out, c04Scenario(append([]listReply{}, prefix...), nil, pb, false))
			}
		}
		if len(prefix) == depth {
			return
		}
		for _, a := range alphabet {
			rec(append(prefix, a))
		}
	}
	rec(nil)
	// the same histories with slow long polls: every worker has finished before the next reply arrives
	for _, sc := range append([]vx.Scenario{}, out...) {
		out = append(out, slow(sc))
	}
	// fetch outcomes
	for _, f := range []string{"404", "503x3", "503x1", "err"} {
		out = append(out, c04Scenario([]listReply{{ids: []string{"a", "b"}}, {ids: []string{"a"}}, {ids: []string{"b", "a"}}}, map[string]string{"a": f}, pb, false))
		out = append(out, c04Scenario(slowHist([]listReply{{ids: []string{"a", "b"}}, {ids: []string{"a"}}, {ids: []string{"b", "a"}}}), map[string]string{"a": f}, 0, true))
	}
	// the response upload fails on every attempt; the proxy, having no response, lists the id again
	for _, f := range []string{"upload-err", "upload-503x3"} {
		out = append(out, c04Scenario([]listReply{{ids: []string{"a"}}, {ids: []string{"a"}, afterAttempts: "a"}, {ids: []string{"a", "b"}}}, map[string]string{"a": f}, pb, false))
		out = append(out, c04Scenario([]listReply{{ids: []string{"a", "b"}}}, map[string]string{"a": f}, pb, false))
		out = append(out, c04Scenario(slowHist([]listReply{{ids: []string{"a"}}, {ids: []string{"a"}}, {ids: []string{"a", "b"}}, {ids: []string{"a"}}}), map[string]string{"a": f}, 0, true))
	}
	// a long-lived request is reported in every reply while more than a thousand others come and go:
	// never more than 101 ids outstanding, so it must still be forwarded only once
	{
		h := []listReply{{ids: []string{"a"}}}
		for k := 0; k < 11; k++ {
			l := bulk(100, fmt.Sprintf("r%02d", k))
			l.ids = append([]string{"a"}, l.ids...)
			h = append(h, l)
		}
		h = append(h, listReply{ids: []string{"a"}})
		out = append(out, c04Scenario(h, nil, 0, true))
	}
	// dedup window (single schedule: a thousand worker threads)
	out = append(out, c04Scenario([]listReply{{ids: []string{"a"}}, bulk(999, "x"), {ids: []string{"a"}}}, nil, 0, true))
	out = append(out, c04Scenario([]listReply{{ids: []string{"a"}}, bulk(500, "x"), bulk(499, "y"), {ids: []string{"a", "b"}}, {ids: []string{"b"}}}, nil, 0, true))
	out = append(out, c04Scenario([]listReply{{ids: []string{"a"}}, bulk(1000, "x"), {ids: []string{"a"}}}, nil, 0, true))
	if th {
		out = append(out, c04Scenario([]listReply{{ids: []string{"a", "b"}}, bulk(998, "x"), {ids: []string{"b", "a"}}, {ids: []string{"a"}}}, nil, 0, true))
	}
	return out
}

// ---------------- C08: backoff in the polling loop ----------------

func c08Scenario(pattern string, jitter float64, jname string) vx.Scenario {
	return vx.Scenario{Name: fmt.Sprintf("c08/%s/j%s", pattern, jname), PB: 0, Single: true, MaxSteps: 20000, MaxTime: time.Hour,
		Setup: func(s *vs.Sched) func(*vs.Result) vx.Exec {
			w := newWorld(s)
			for _, c := range pattern {
				if c == 'F' {
					w.lists = append(w.lists, listReply{kind: "err"})
				} else if c == 'E' {
					w.lists = append(w.lists, listReply{kind: "500"})
				} else if c == 'Z' {
					w.lists = append(w.lists, listReply{kind: "503empty"})
				} else if c == 'U' {
					w.lists = append(w.lists, listReply{kind: "401empty"})
				} else if c == 'A' {
					// a success that hands out a request whose backend takes a while: it completes in the
					// middle of whatever follows
					id := fmt.Sprintf("r%d", len(w.lists))
					w.lists = append(w.lists, listReply{ids: []string{id}})
					w.backend[id] = &backendPlan{latency: 100 * time.Millisecond}
				} else if c == 'T' {
					w.lists = append(w.lists, listReply{kind: "timeout", delay: 20 * time.Millisecond})
				} else if c == 'R' {
					w.lists = append(w.lists, listReply{kind: "refused"})
				} else if c == 'O' {
					w.lists = append(w.lists, listReply{kind: "eof"})
				} else if c == 's' {
					// a long poll that returns nothing after a while
					w.lists = append(w.lists, listReply{ids: []string{}, delay: 1400 * time.Millisecond})
				} else if c == 'f' {
					// a failure that takes its time
					w.lists = append(w.lists, listReply{kind: "err", delay: 700 * time.Millisecond})
				} else {
					w.lists = append(w.lists, listReply{ids: []string{}})
				}
			}
			w.hooks.Jitter = func() float64 { return jitter }
			w.startAgent()
			return func(r *vs.Result) vx.Exec {
				var x vx.Exec
				baseViolations(r, &x)
				if r.Exited {
					x.Violations = append(x.Violations, fmt.Sprintf("EXIT: agent exited (code %d)", r.ExitCode))
				}
				if len(w.listTimes) != len(pattern)+1 && !r.Horizon {
					x.Violations = append(x.Violations, fmt.Sprintf("POLLS: %d list calls for a script of %d answers", len(w.listTimes), len(pattern)))
				}
				consecutive := 0
				var gaps []string
				for i := 0; i+1 < len(w.listTimes) && i < len(pattern); i++ {
					gap := w.listTimes[i+1] - w.listTimes[i]
					if i < len(w.listEnds) && w.listEnds[i] > 0 {
						// the delay is what passes between the answer and the next call
						gap = w.listTimes[i+1] - w.listEnds[i]
					}
					gaps = append(gaps, gap.String())
					if pattern[i] == 'S' || pattern[i] == 's' || pattern[i] == 'A' {
						consecutive = 0
						continue
					}
					consecutive++
					base := time.Duration(math.Min(float64(time.Millisecond)*math.Pow(2, float64(consecutive-1)), float64(3*time.Second)))
					lo, hi := time.Duration(float64(base)*0.9)-time.Microsecond, time.Duration(float64(base)*1.1)+time.Microsecond
					if gap <= 0 {
						x.Violations = append(x.Violations, fmt.Sprintf("BUSYLOOP: no delay after failure %d in a row (call %d of pattern %s)", consecutive, i+1, pattern))
					} else if gap < lo || gap > hi {
						x.Violations = append(x.Violations, fmt.Sprintf("BACKOFF: delay %v after failure %d in a row, expected %v +-10%% (call %d of pattern %s, jitter %s)", gap, consecutive, base, i+1, pattern, jname))
					}
				}
				x.Obs = strings.Join(gaps, ",")
				return x
			}
		}}
}

func c08Scenarios(th bool) []vx.Scenario {
	n := 6
	if th {
		n = 9
	}
	jit := map[string]float64{"lo": 0, "mid": 0.5, "hi": math.Nextafter(1, 0)}
	var out []vx.Scenario
	for _, jn := range []string{"lo", "mid", "hi"} {
		for l := 1; l <= n; l++ {
			for m := 0; m < 1<<l; m++ {
				var sb strings.Builder
				for b := 0; b < l; b++ {
					if m>>b&1 == 1 {
						sb.WriteByte('F')
					} else {
						sb.WriteByte('S')
					}
				}
				if jn != "mid" && l > 5 && !th {
					continue
				}
				out = append(out, c08Scenario(sb.String(), jit[jn], jn))
			}
		}
		// every kind of failing answer: transport error, 500 with a body, bare 503 / 401 with an empty body
		if jn == "mid" || th {
			kinds := "FEZUS"
			l := 4
			if th {
				l = 5
			}
			total := 1
			for i := 0; i < l; i++ {
				total *= len(kinds)
			}
			for m := 0; m < total; m++ {
				var sb strings.Builder
				x := m
				for b := 0; b < l; b++ {
					sb.WriteByte(kinds[x%len(kinds)])
					x /= len(kinds)
				}
				if strings.ContainsAny(sb.String(), "EZU") {
					out = append(out, c08Scenario(sb.String(), jit[jn], jn))
				}
			}
		}
		// failures by error type (timeout, refused, unexpected EOF) and answers that take their time
		if jn == "mid" || th {
			kinds := "TROsfFS"
			l := 3
			if th {
				l = 4
			}
			total := 1
			for i := 0; i < l; i++ {
				total *= len(kinds)
			}
			for m := 0; m < total; m++ {
				var sb strings.Builder
				x := m
				for b := 0; b < l; b++ {
					sb.WriteByte(kinds[x%len(kinds)])
					x /= len(kinds)
				}
				if strings.ContainsAny(sb.String(), "TROsf") {
					out = append(out, c08Scenario(sb.String()+"FF", jit[jn], jn))
				}
			}
			out = append(out, c08Scenario("ssFFFFFFFFFFFFSsFFF", jit[jn], jn), c08Scenario(strings.Repeat("T", 14)+"S"+"TT", jit[jn], jn))
			// a forwarded request finishes (successfully) in the middle of a run of failing list calls
			out = append(out, c08Scenario("A"+strings.Repeat("F", 12), jit[jn], jn), c08Scenario("SA"+strings.Repeat("Z", 11)+"SF", jit[jn], jn), c08Scenario("AA"+strings.Repeat("T", 10), jit[jn], jn))
		}
		// long runs: reach and stay at the cap, recover, fail again; 5xx answers count as failures too
		out = append(out, c08Scenario(strings.Repeat("F", 22)+"S"+"FFF", jit[jn], jn))
		out = append(out, c08Scenario(strings.Repeat("F", 50)+"S"+"F", jit[jn], jn))
		out = append(out, c08Scenario(strings.Repeat("Z", 18)+"S"+"ZF", jit[jn], jn))
		out = append(out, c08Scenario(strings.Repeat("F", 16)+"S"+"FFF", jit[jn], jn))
		out = append(out, c08Scenario(strings.Repeat("E", 13)+"SS"+"EF", jit[jn], jn))
		if th {
			out = append(out, c08Scenario(strings.Repeat("F", 70)+"S"+"F", jit[jn], jn))
		}
	}
	return out
}

// ---------------- C05: streaming through the whole agent ----------------

// c05Scenario: the scripted backend produces chunk i of its response only after the proxy has seen
// chunk i-1 in the upload; an agent that holds flushed bytes back (in the reverse proxy, the shim
// script injection, the banner, the session handler or the response forwarder) leaves the backend
// waiting and the execution ends with the chunk not delivered.
func c05Scenario(flags []string, ctype string, chunks []string, pb int) vx.Scenario {
	var sizes []int
	for _, c := range chunks {
		sizes = append(sizes, len(c))
	}
	name := fmt.Sprintf("c05/agent %v %s chunks=%v", flags, ctype, sizes)
	return vx.Scenario{Name: name, PB: pb, Delay: true, Single: pb == 0, MaxSteps: 100000, MaxTime: time.Minute,
		Setup: func(s *vs.Sched) func(*vs.Result) vx.Exec {
			w := newWorld(s)
			w.lists = []listReply{{ids: []string{"a"}}}
			w.fetch["a"] = &fetchPlan{req: "GET /p/a HTTP/1.1\r\nHost: client.example\r\nX-Tok: a\r\nAccept: text/html\r\nSec-Fetch-Dest: iframe\r\n\r\n"}
			w.backend["a"] = &backendPlan{kind: "lockstep", chunks: chunks, header: http.Header{"Content-Type": {ctype}}}
			w.startAgent(flags...)
			return func(r *vs.Result) vx.Exec {
				var x vx.Exec
				baseViolations(r, &x)
				u := w.uploadFor("a")
				got := ""
				if u != nil {
					got = string(u.raw)
				}
				delivered := 0
				for _, c := range chunks {
					// the last 11 bytes: the serialiser's one-byte probe may put the very first byte of the
					// body into an HTTP chunk of its own
					if strings.Contains(got, c[len(c)-11:]) {
						delivered++
					}
				}
				x.Obs = fmt.Sprintf("%d of %d chunks delivered, upload done=%v", delivered, len(chunks), u != nil && u.done)
				if delivered < len(chunks) && len(x.Violations) == 0 {
					x.Violations = append(x.Violations, fmt.Sprintf("STALL: the backend has flushed chunk %d (%d bytes) of its %s response and waits for the proxy to see it, but the agent (%v) only relayed %d of %d chunks and nothing more will happen", w.flushed, len(chunks[delivered]), ctype, flags, delivered, len(chunks)))
				} else if (u == nil || !u.done) && len(x.Violations) == 0 && !r.Horizon {
					x.Violations = append(x.Violations, "UNFINISHED: all chunks were relayed but the upload never ended")
				}
				return x
			}
		}}
}

func c05Scenarios(th bool) []vx.Scenario {
	mk := func(tag string, n int) string {
		pad := n - 12
		if pad < 0 {
			pad = 0
		}
		return strings.Repeat("x", pad) + fmt.Sprintf("<<chunk-%s>>", tag)[:12]
	}
	html := func(sizes ...int) []string {
		var c []string
		for i, n := range sizes {
			c = append(c, mk(fmt.Sprintf("%03d", i), n))
		}
		return c
	}
	withHead := func(sizes ...int) []string {
		c := html(sizes...)
		c[0] = "<html><head></head>" + c[0]
		return c
	}
	flagSets := [][]string{
		nil,
		{"--shim-websockets", "--shim-path=websocket-shim"},
		{"--session-cookie-name=sess"},
		{"--inject-banner=<b>banner</b>"},
		{"--shim-websockets", "--shim-path=websocket-shim", "--session-cookie-name=sess", "--inject-banner=<b>banner</b>", "--forward-user-id"},
	}
	var out []vx.Scenario
	for _, fl := range flagSets {
		for _, ct := range []string{"text/html; charset=utf-8", "application/json", "text/event-stream"} {
			for _, ch := range [][]string{html(12, 12, 12), html(100, 2000, 12), withHead(50, 12, 5000), html(1024, 12), html(1023, 12, 12), html(40000, 12)} {
				pb := 0
				if len(ch[0]) < 200 && len(fl) <= 2 {
					pb = 1
				}
				if !th && ct == "text/event-stream" && len(ch) == 2 {
					continue
				}
				out = append(out, c05Scenario(fl, ct, ch, pb))
			}
		}
	}
	return out
}

// ---------------- C10: sessions through the whole agent (with the websocket shim) ----------------

// c10Scenario: one client session through main() with session tracking and the websocket shim: the
// backend sets cookies (one scoped to a path) in answer to the first request; later plain requests and
// shim open requests of the session must carry exactly the cookies a jar would send for their own URL.
func c10Scenario(extra []string, setCookies []string, firstPath string) vx.Scenario {
	name := fmt.Sprintf("c10/agent %v first=%s set=%q", extra, firstPath, setCookies)
	return vx.Scenario{Name: name, PB: 0, Single: true, MaxSteps: 50000, MaxTime: time.Minute,
		Setup: func(s *vs.Sched) func(*vs.Result) vx.Exec {
			w := newWorld(s)
			session := func() string {
				u := w.uploadFor("a")
				if u == nil {
					return ""
				}
				raw := string(u.raw)
				i := strings.Index(raw, "Set-Cookie: sess=")
				if i < 0 {
					return ""
				}
				v := raw[i+len("Set-Cookie: sess="):]
				if j := strings.IndexAny(v, ";\r"); j >= 0 {
					v = v[:j]
				}
				return v
			}
			plain := func(id, path string) func() string {
				return func() string {
					return fmt.Sprintf("GET %s HTTP/1.1\r\nHost: client.example\r\nX-Tok: %s\r\nCookie: own=1; sess=%s\r\n\r\n", path, id, session())
				}
			}
			open := func(id, target string) func() string {
				return func() string {
					return fmt.Sprintf("POST /websocket-shim/open HTTP/1.1\r\nHost: client.example\r\nX-Tok: %s\r\nCookie: sess=%s\r\nContent-Length: %d\r\n\r\n%s", id, session(), len(target), target)
				}
			}
			w.lists = []listReply{{ids: []string{"a"}}, {ids: []string{"b"}, after: "a"}, {ids: []string{"c"}, after: "b"}, {ids: []string{"d"}, after: "c"}, {ids: []string{"e"}, after: "d"}}
			w.fetch["a"] = &fetchPlan{req: fmt.Sprintf("GET %s HTTP/1.1\r\nHost: client.example\r\nX-Tok: a\r\n\r\n", firstPath)}
			w.backend["a"] = &backendPlan{header: http.Header{"Set-Cookie": setCookies}}
			w.fetch["b"] = &fetchPlan{reqFn: open("b", "ws://client.example/app/socket-b")}
			w.fetch["c"] = &fetchPlan{reqFn: open("c", "ws://client.example/other/socket-c")}
			w.fetch["d"] = &fetchPlan{reqFn: plain("d", "/app/page")}
			w.fetch["e"] = &fetchPlan{reqFn: plain("e", "/elsewhere")}
			w.startAgent(append([]string{"--session-cookie-name=sess", "--shim-websockets", "--shim-path=websocket-shim"}, extra...)...)
			return func(r *vs.Result) vx.Exec {
				var x vx.Exec
				baseViolations(r, &x)
				if session() == "" {
					if len(x.Violations) == 0 {
						x.Violations = append(x.Violations, "NOSESSION: the first response did not issue a session cookie")
					}
					return x
				}
				// reference: which of the set cookies apply to a path (all are host-only cookies of client.example)
				want := func(path string) []string {
					var out []string
					for _, sc := range setCookies {
						nv := strings.SplitN(sc, ";", 2)[0]
						scope := "/"
						if i := strings.Index(sc, "Path="); i >= 0 {
							scope = strings.SplitN(sc[i+5:], ";", 2)[0]
						} else if j := strings.LastIndex(firstPath, "/"); j > 0 {
							scope = firstPath[:j]
						}
						if scope == "/" || path == scope || strings.HasPrefix(path, strings.TrimSuffix(scope, "/")+"/") {
							out = append(out, nv)
						}
					}
					sort.Strings(out)
					return out
				}
				got := func(h http.Header) []string {
					var out []string
					for _, line := range h["Cookie"] {
						for _, c := range strings.Split(line, ";") {
							c = strings.TrimSpace(c)
							if c != "" && c != "own=1" {
								out = append(out, c)
							}
						}
					}
					sort.Strings(out)
					return out
				}
				var obs []string
				check := func(what, path string, h http.Header) {
					g, wnt := got(h), want(path)
					obs = append(obs, fmt.Sprintf("%s:%q", path, g))
					if strings.Join(g, "; ") != strings.Join(wnt, "; ") {
						x.Violations = append(x.Violations, fmt.Sprintf("BACKENDCOOKIES: the %s for %s carried the session's cookies %q, a jar holding %q (set on %s) sends %q there", what, path, g, setCookies, firstPath, wnt))
					}
					for _, c := range g {
						if strings.HasPrefix(c, "sess=") {
							x.Violations = append(x.Violations, fmt.Sprintf("SESSIONCOOKIE: the session cookie itself reached the backend (%s for %s)", what, path))
						}
					}
				}
				nd := 0
				for _, d := range w.ws.Dials {
					u := d.URL[strings.Index(d.URL, "//")+2:]
					check("websocket handshake", u[strings.Index(u, "/"):], d.Header)
					nd++
				}
				np := 0
				for _, c := range w.calls {
					if c.tok == "d" || c.tok == "e" {
						check("request", c.target, c.header)
						np++
					}
				}
				if (nd != 2 || np != 2) && len(x.Violations) == 0 && !r.Exited {
					x.Violations = append(x.Violations, fmt.Sprintf("INCOMPLETE: %d websocket dials and %d later requests reached the backend, 2 and 2 expected", nd, np))
				}
				for _, id := range []string{"a", "d", "e"} {
					if u := w.uploadFor(id); u != nil {
						for _, line := range strings.Split(string(u.raw), "\r\n") {
							if strings.HasPrefix(line, "Set-Cookie:") && !strings.HasPrefix(line, "Set-Cookie: sess=") {
								x.Violations = append(x.Violations, fmt.Sprintf("LEAK: %q reached the client in the response to %s", line, id))
							}
						}
					}
				}
				x.Obs = strings.Join(obs, " ")
				return x
			}
		}}
}

// c10Concurrent: after a first request that creates the session, a plain request and a shim open request
// of that session (and a request of a fresh client) are in flight at once: the session table is shared by
// the handler around the reverse proxy and the one the shim uses for open requests.
func c10Concurrent(pb int) vx.Scenario {
	return vx.Scenario{Name: "c10/agent/concurrent plain + shim open + fresh client", PB: pb, Delay: true, MaxSteps: 50000, MaxTime: time.Minute,
		Setup: func(s *vs.Sched) func(*vs.Result) vx.Exec {
			w := newWorld(s)
			session := func() string {
				u := w.uploadFor("a")
				if u == nil {
					return ""
				}
				raw := string(u.raw)
				i := strings.Index(raw, "Set-Cookie: sess=")
				if i < 0 {
					return ""
				}
				v := raw[i+len("Set-Cookie: sess="):]
				if j := strings.IndexAny(v, ";\r"); j >= 0 {
					v = v[:j]
				}
				return v
			}
			w.lists = []listReply{{ids: []string{"a"}}, {ids: []string{"b", "c", "d"}, after: "a"}}
			w.fetch["a"] = &fetchPlan{req: "GET /login HTTP/1.1\r\nHost: client.example\r\nX-Tok: a\r\n\r\n"}
			w.backend["a"] = &backendPlan{header: http.Header{"Set-Cookie": {"tok=1"}}}
			w.fetch["b"] = &fetchPlan{reqFn: func() string {
				return fmt.Sprintf("GET /page HTTP/1.1\r\nHost: client.example\r\nX-Tok: b\r\nCookie: sess=%s\r\n\r\n", session())
			}}
			w.fetch["c"] = &fetchPlan{reqFn: func() string {
				target := "ws://client.example/socket-c"
				return fmt.Sprintf("POST /websocket-shim/open HTTP/1.1\r\nHost: client.example\r\nX-Tok: c\r\nCookie: sess=%s\r\nContent-Length: %d\r\n\r\n%s", session(), len(target), target)
			}}
			w.fetch["d"] = &fetchPlan{req: "GET /other HTTP/1.1\r\nHost: client.example\r\nX-Tok: d\r\n\r\n"}
			w.startAgent("--session-cookie-name=sess", "--shim-websockets", "--shim-path=websocket-shim")
			return func(r *vs.Result) vx.Exec {
				var x vx.Exec
				baseViolations(r, &x)
				if r.Exited {
					x.Violations = append(x.Violations, fmt.Sprintf("EXIT: agent exited (code %d)", r.ExitCode))
				}
				var obs []string
				for _, c := range w.calls {
					ck := c.header.Get("Cookie")
					obs = append(obs, c.tok+":"+ck)
					if c.tok == "b" && ck != "tok=1" {
						x.Violations = append(x.Violations, fmt.Sprintf("BACKENDCOOKIES: the session's plain request reached the backend with Cookie %q, the session holds tok=1", ck))
					}
					if c.tok == "d" && ck != "" {
						x.Violations = append(x.Violations, fmt.Sprintf("MIXED: a fresh client's request reached the backend with Cookie %q", ck))
					}
				}
				for _, d := range w.ws.Dials {
					ck := d.Header.Get("Cookie")
					obs = append(obs, "open:"+ck)
					if ck != "tok=1" {
						x.Violations = append(x.Violations, fmt.Sprintf("BACKENDCOOKIES: the session's websocket handshake carried Cookie %q, the session holds tok=1", ck))
					}
				}
				sort.Strings(obs)
				x.Obs = strings.Join(obs, " ")
				return x
			}
		}}
}

func c10Scenarios(th bool) []vx.Scenario {
	var out []vx.Scenario
	cpb := 2
	if th {
		cpb = 3
	}
	out = append(out, c10Concurrent(cpb))
	sets := [][]string{
		{"tok=1; Path=/app"},
		{"tok=1"},
		{"tok=1; Path=/", "scoped=2; Path=/app/"},
		{"tok=1; Path=/other; HttpOnly", "u=3; Secure"},
	}
	for _, extra := range [][]string{nil, {"--rewrite-websocket-host"}, {"--inject-banner=<b>x</b>", "--forward-user-id"}} {
		for _, sc := range sets {
			for _, fp := range []string{"/app/login", "/"} {
				out = append(out, c10Scenario(extra, sc, fp))
			}
		}
	}
	return out
}

// ---------------- C09: identity and credential headers ----------------

type c09Case struct {
	flags    []string
	fwdUser  bool
	strip    bool
	hdrLines []string
	asserted string
	method   string
	kind     string // "" plain request, "shimopen", "shimdata"
	path     string // request path of a plain request (default /p/a)
}

func c09Scenario(c c09Case, idx int) vx.Scenario {
	name := fmt.Sprintf("c09/%d %v %s%s%s %q user=%q", idx, c.flags, c.method, c.kind, c.path, c.hdrLines, c.asserted)
	return vx.Scenario{Name: name, PB: 0, Single: true, MaxSteps: 5000,
		Setup: func(s *vs.Sched) func(*vs.Result) vx.Exec {
			w := newWorld(s)
			hdrs := ""
			for _, l := range c.hdrLines {
				hdrs += l + "\r\n"
			}
			mk := func(method, path, body string) string {
				return fmt.Sprintf("%s %s HTTP/1.1\r\nHost: client.example\r\nX-Tok: a\r\nContent-Length: %d\r\n%s\r\n%s", method, path, len(body), hdrs, body)
			}
			switch c.kind {
			case "":
				body := ""
				if c.method == "POST" {
					body = "payload"
				}
				w.lists = []listReply{{ids: []string{"a"}}}
				pth := "/p/a"
				if c.path != "" {
					pth = c.path
				}
				w.fetch["a"] = &fetchPlan{req: mk(c.method, pth, body), user: c.asserted, userSet: true}
			case "shimopen":
				w.lists = []listReply{{ids: []string{"o"}}}
				w.fetch["o"] = &fetchPlan{req: mk("POST", "/websocket-shim/open", "ws://client.example/socket?x=1"), user: c.asserted, userSet: true}
			case "shimdata":
				w.lists = []listReply{{ids: []string{"o"}}, {ids: []string{"d"}, after: "o"}}
				w.fetch["o"] = &fetchPlan{req: fmt.Sprintf("POST /websocket-shim/open HTTP/1.1\r\nHost: client.example\r\nX-Websocket-Shim-Version: 1\r\nContent-Length: 27\r\n\r\nws://client.example/socket1"), user: "opener@example.com", userSet: true}
				msg := `[{"id":"1","msg":"{\"resource\":{\"headers\":{\"Keep\":\"me\"}}}"}]`
				w.fetch["d"] = &fetchPlan{req: mk("POST", "/websocket-shim/data", msg), user: c.asserted, userSet: true}
			}
			w.startAgent(c.flags...)
			return func(r *vs.Result) vx.Exec {
				var x vx.Exec
				baseViolations(r, &x)
				var h http.Header
				what := "request"
				switch c.kind {
				case "":
					if len(w.calls) != 1 {
						if !r.Exited {
							x.Violations = append(x.Violations, fmt.Sprintf("NOCALL: backend saw %d requests", len(w.calls)))
						}
						return x
					}
					h = w.calls[0].header
				case "shimopen":
					d := w.ws.Dials
					if len(d) != 1 {
						x.Violations = append(x.Violations, fmt.Sprintf("NODIAL: %d websocket dials for one shim open request", len(d)))
						return x
					}
					h = d[0].Header
					what = "websocket handshake"
				case "shimdata":
					if len(w.wsClient) != 1 || len(w.wsClient[0].Sent) != 1 {
						x.Violations = append(x.Violations, fmt.Sprintf("NOMSG: backend websocket received %d connections / wrong message count", len(w.wsClient)))
						return x
					}
					var m struct {
						Resource struct {
							Headers map[string]interface{} `json:"headers"`
						} `json:"resource"`
					}
					if err := json.Unmarshal(w.wsClient[0].Sent[0].Data, &m); err != nil {
						x.Violations = append(x.Violations, "BADMSG: "+err.Error())
						return x
					}
					h = http.Header{}
					for k, v := range m.Resource.Headers {
						h.Add(k, fmt.Sprint(v))
					}
					what = "injected websocket message"
				}
				var ids, auth []string
				hk := make([]string, 0, len(h))
				for k := range h {
					hk = append(hk, k)
				}
				sort.Strings(hk)
				for _, k := range hk {
					v := h[k]
					if http.CanonicalHeaderKey(k) == "X-Inverting-Proxy-User-Id" {
						ids = append(ids, v...)
					}
					if http.CanonicalHeaderKey(k) == "Authorization" {
						auth = append(auth, v...)
					}
				}
				if c.fwdUser && c.kind != "shimdata" {
					if len(ids) != 1 || ids[0] != c.asserted {
						x.Violations = append(x.Violations, fmt.Sprintf("IDENTITY: backend %s carries X-Inverting-Proxy-User-ID %q, the proxy asserted exactly %q (client sent %q)", what, ids, c.asserted, c.hdrLines))
					}
				}
				if c.strip && len(auth) > 0 {
					x.Violations = append(x.Violations, fmt.Sprintf("CREDENTIALS: Authorization %q reached the backend (%s) although credential stripping is on", auth, what))
				}
				x.Obs = fmt.Sprintf("%s ids=%q auth=%q", what, ids, auth)
				return x
			}
		}}
}

// c09Conc: two or three requests of different users in flight at once (one of them may be a shim open
// request): each backend call / websocket handshake must carry the identity asserted for its own request.
func c09Conc(flags []string, users []string, shimOpen bool, pb int) vx.Scenario {
	name := fmt.Sprintf("c09/concurrent %v users=%q shimopen=%v", flags, users, shimOpen)
	return vx.Scenario{Name: name, PB: pb, Delay: true, MaxSteps: 20000, MaxTime: time.Minute,
		Setup: func(s *vs.Sched) func(*vs.Result) vx.Exec {
			w := newWorld(s)
			ids := []string{"a", "b", "c"}[:len(users)]
			w.lists = []listReply{{ids: ids}}
			for i, id := range ids {
				req := fmt.Sprintf("GET /p/%s HTTP/1.1\r\nHost: client.example\r\nX-Tok: %s\r\nX-Inverting-Proxy-User-ID: forged-%s@example.com\r\n\r\n", id, id, id)
				if shimOpen && i == 0 {
					body := "ws://client.example/socket-" + id
					req = fmt.Sprintf("POST /websocket-shim/open HTTP/1.1\r\nHost: client.example\r\nX-Tok: %s\r\nContent-Length: %d\r\n\r\n%s", id, len(body), body)
				}
				w.fetch[id] = &fetchPlan{req: req, user: users[i], userSet: true}
			}
			w.startAgent(flags...)
			return func(r *vs.Result) vx.Exec {
				var x vx.Exec
				baseViolations(r, &x)
				var obs []string
				seen := 0
				check := func(what, id string, h http.Header) {
					want := ""
					for i, k := range ids {
						if k == id {
							want = users[i]
						}
					}
					var got []string
					for k, v := range h {
						if http.CanonicalHeaderKey(k) == "X-Inverting-Proxy-User-Id" {
							got = append(got, v...)
						}
					}
					sort.Strings(got)
					obs = append(obs, fmt.Sprintf("%s:%q", id, got))
					if len(got) != 1 || got[0] != want {
						x.Violations = append(x.Violations, fmt.Sprintf("IDENTITY: the %s of request %s carries X-Inverting-Proxy-User-ID %q, the proxy asserted %q for it (other requests in flight: %q)", what, id, got, want, users))
					}
				}
				for _, c := range w.calls {
					seen++
					check("backend request", c.tok, c.header)
				}
				for _, d := range w.ws.Dials {
					seen++
					check("websocket handshake", strings.TrimPrefix(d.URL[strings.LastIndex(d.URL, "/")+1:], "socket-"), d.Header)
				}
				if seen != len(ids) && len(x.Violations) == 0 && !r.Exited {
					x.Violations = append(x.Violations, fmt.Sprintf("NOCALL: %d requests listed, %d reached the backend", len(ids), seen))
				}
				sort.Strings(obs)
				x.Obs = strings.Join(obs, " ")
				return x
			}
		}}
}

func c09Scenarios(th bool) []vx.Scenario {
	idLines := [][]string{
		nil,
		{"X-Inverting-Proxy-User-ID: evil@example.com"},
		{"x-inverting-proxy-user-id: evil@example.com"},
		{"X-INVERTING-PROXY-USER-ID: evil@example.com"},
		{"X-Inverting-Proxy-User-ID: evil1@example.com", "X-Inverting-Proxy-User-ID: evil2@example.com"},
		{"X-Inverting-Proxy-User-ID:"},
		{"X-Inverting-Proxy-User-ID: u@example.com"},
	}
	authLines := [][]string{nil, {"Authorization: Bearer x"}, {"authorization: Bearer x"}, {"Authorization: Basic a", "Authorization: Bearer b"}, {"Authorization:", "Authorization: Bearer late"}}
	asserted := []string{"u@example.com", "", "a,b@example.com", "Alice.Smith@Example.COM"}
	var out []vx.Scenario
	cpb := 2
	if th {
		cpb = 3
	}
	out = append(out, c09Conc([]string{"--forward-user-id"}, []string{"alice@example.com", "bob@example.com"}, false, cpb))
	out = append(out, c09Conc([]string{"--forward-user-id", "--strip-credentials"}, []string{"alice@example.com", ""}, false, cpb))
	out = append(out, c09Conc([]string{"--forward-user-id", "--shim-websockets", "--shim-path=websocket-shim"}, []string{"alice@example.com", "bob@example.com"}, true, cpb))
	out = append(out, c09Conc([]string{"--forward-user-id", "--session-cookie-name=sess"}, []string{"alice@example.com", "bob@example.com", "carol@example.com"}, false, cpb-1))
	idx := 0
	// backend URLs that merely look like the shim's own (same leading characters, endings such as /poll):
	// they are ordinary requests and get the same treatment
	for _, pth := range []string{"/websocket-shim-v2/poll", "/websocket-shimmed/jobs/42/poll", "/websocket-shimx/open", "/websocket-shim.js", "/x/websocket-shim/poll"} {
		idx++
		out = append(out, c09Scenario(c09Case{flags: []string{"--shim-websockets", "--shim-path=websocket-shim", "--forward-user-id", "--strip-credentials"}, fwdUser: true, strip: true,
			hdrLines: []string{"X-Inverting-Proxy-User-ID: evil@example.com", "Authorization: Bearer x"}, asserted: "u@example.com", method: "GET", path: pth}, idx))
	}
	for _, fu := range []bool{false, true} {
		for _, st := range []bool{false, true} {
			if !fu && !st {
				continue
			}
			for _, extra := range [][]string{nil, {"--shim-websockets", "--shim-path=websocket-shim"}, {"--session-cookie-name=sess"}, {"--shim-websockets", "--shim-path=websocket-shim", "--session-cookie-name=sess", "--rewrite-websocket-host"}} {
				flags := append([]string{}, extra...)
				if fu {
					flags = append(flags, "--forward-user-id")
				}
				if st {
					flags = append(flags, "--strip-credentials")
				}
				for _, il := range idLines {
					for _, al := range authLines {
						for _, as := range asserted {
							for _, m := range []string{"GET", "POST"} {
								if !th && (m == "POST" && (len(il) > 0 && len(al) > 0) && len(extra) == 0) {
									continue
								}
								if !th && len(extra) > 0 && as != "u@example.com" {
									continue
								}
								idx++
								out = append(out, c09Scenario(c09Case{flags: flags, fwdUser: fu, strip: st, hdrLines: append(append([]string{}, il...), al...), asserted: as, method: m}, idx))
								if m == "POST" && len(extra) > 0 && strings.Contains(extra[0], "shim") {
									idx++
									out = append(out, c09Scenario(c09Case{flags: flags, fwdUser: fu, strip: st, hdrLines: append(append([]string{}, il...), al...), asserted: as, method: m, kind: "shimopen"}, idx))
									idx++
									out = append(out, c09Scenario(c09Case{flags: append(append([]string{}, flags...), "--enable-websockets-injection"), fwdUser: fu, strip: st, hdrLines: append(append([]string{}, il...), al...), asserted: as, method: m, kind: "shimdata"}, idx))
								}
							}
						}
					}
				}
			}
		}
	}
	return out
}

// ---------------- C07: one failing request ----------------

type c07Fault struct {
	name  string
	apply func(w *world)
	// expectation for the faulty request "f": "" nothing demanded, "502" the client must get a 502
	want string
}

func c07Faults() []c07Fault {
	return []c07Fault{
		{name: "none", apply: func(w *world) {}},
		{name: "list-err", apply: func(w *world) { w.lists = append([]listReply{{kind: "err"}}, w.lists...) }},
		{name: "list-err-x50", apply: func(w *world) {
			// a proxy outage of a couple of minutes: fifty failing list calls in a row
			var f []listReply
			for i := 0; i < 50; i++ {
				f = append(f, listReply{kind: "err"})
			}
			w.lists = append(f, w.lists...)
		}},
		{name: "list-503-x64", apply: func(w *world) {
			var f []listReply
			for i := 0; i < 64; i++ {
				f = append(f, listReply{kind: "503empty"})
			}
			w.lists = append(f, w.lists...)
		}},
		{name: "list-500", apply: func(w *world) { w.lists = append([]listReply{{kind: "500"}}, w.lists...) }},
		{name: "list-garbage", apply: func(w *world) { w.lists = append([]listReply{{kind: "garbage"}}, w.lists...) }},
		{name: "list-huge", apply: func(w *world) { w.lists = append([]listReply{{kind: "huge"}}, w.lists...) }},
		{name: "fetch-404", apply: func(w *world) { w.fetch["f"] = &fetchPlan{kind: "404"} }},
		{name: "fetch-503x3", apply: func(w *world) { w.fetch["f"] = &fetchPlan{kind: "503x3"} }},
		{name: "fetch-err", apply: func(w *world) { w.fetch["f"] = &fetchPlan{kind: "err"} }},
		{name: "fetch-notrequest", apply: func(w *world) { w.fetch["f"] = &fetchPlan{kind: "notrequest"} }},
		{name: "fetch-nostart", apply: func(w *world) { w.fetch["f"] = &fetchPlan{kind: "nostart"} }},
		{name: "fetch-badstart", apply: func(w *world) { w.fetch["f"] = &fetchPlan{kind: "badstart"} }},
		{name: "fetch-short", apply: func(w *world) { w.fetch["f"] = &fetchPlan{kind: "short"} }},
		{name: "backend-connerr", want: "502", apply: func(w *world) { w.backend["f"] = &backendPlan{kind: "connerr"} }},
		{name: "backend-errafterheaders", apply: func(w *world) { w.backend["f"] = &backendPlan{kind: "errafterheaders"} }},
		{name: "backend-errafterbody", apply: func(w *world) { w.backend["f"] = &backendPlan{kind: "errafterbody"} }},
		{name: "backend-500", apply: func(w *world) { w.backend["f"] = &backendPlan{status: 500} }},
		{name: "upload-503x3", apply: func(w *world) { w.uploadFault["f"] = "503x3" }},
		{name: "upload-err", apply: func(w *world) { w.uploadFault["f"] = "err" }},
	}
}

func c07Scenario(f c07Fault, layout int, flags []string, pb int) vx.Scenario {
	// layouts: where the faulty request sits among the healthy ones
	lay := [][]listReply{
		{{ids: []string{"h1", "f", "h2"}}, {ids: []string{"p"}}},
		{{ids: []string{"f"}}, {ids: []string{"h1", "h2"}}, {ids: []string{"p"}}},
		{{ids: []string{"h1"}}, {ids: []string{"f", "h2"}}, {ids: []string{"p"}}},
	}[layout]
	return vx.Scenario{Name: fmt.Sprintf("c07/%s/layout%d/%v", f.name, layout, flags), PB: pb, Delay: true, MaxSteps: 20000,
		Setup: func(s *vs.Sched) func(*vs.Result) vx.Exec {
			w := newWorld(s)
			w.lists = append([]listReply{}, lay...)
			f.apply(w)
			w.startAgent(flags...)
			return func(r *vs.Result) vx.Exec {
				var x vx.Exec
				baseViolations(r, &x)
				if r.Exited {
					x.Violations = append(x.Violations, fmt.Sprintf("EXIT: the agent terminated itself (code %d): %v", r.ExitCode, w.hooks.FatalLog))
				}
				var obs []string
				for _, id := range []string{"h1", "h2", "p"} {
					u := w.uploadFor(id)
					if u == nil {
						obs = append(obs, id+":none")
						if len(r.Panics) == 0 && !r.Exited && !r.Horizon {
							x.Violations = append(x.Violations, fmt.Sprintf("DISTURBED: healthy request %s got no response uploaded (fault %s); blocked: %s", id, f.name, blockedList(r)))
						}
						continue
					}
					p := parseUpload(u.raw)
					obs = append(obs, fmt.Sprintf("%s:%d", id, p.status))
					if p.err != nil || p.status != 200 || p.body != "response-for-"+id || p.header.Get("X-Tok") != id {
						x.Violations = append(x.Violations, fmt.Sprintf("DISTURBED: healthy request %s got status %d body %q (err %v) under fault %s", id, p.status, p.body, p.err, f.name))
					}
					if n := w.callsFor(id); n != 1 {
						x.Violations = append(x.Violations, fmt.Sprintf("DISTURBED: healthy request %s reached the backend %d times", id, n))
					}
				}
				if f.want == "502" {
					u := w.uploadFor("f")
					if u == nil {
						if len(r.Panics) == 0 && !r.Exited && !r.Horizon {
							x.Violations = append(x.Violations, "NO502: backend unreachable but no response was uploaded for the request")
						}
					} else if p := parseUpload(u.raw); p.status != 502 {
						x.Violations = append(x.Violations, fmt.Sprintf("NO502: backend unreachable, client would receive status %d", p.status))
					}
				}
				if u := w.uploadFor("f"); u != nil {
					obs = append(obs, fmt.Sprintf("f:%d", parseUpload(u.raw).status))
				}
				x.Obs = strings.Join(obs, " ")
				return x
			}
		}}
}

func blockedList(r *vs.Result) string {
	var p []string
	for _, b := range r.Blocked {
		p = append(p, b.Thread+" in "+b.Op)
	}
	return strings.Join(p, "; ")
}

func c07Scenarios(th bool) []vx.Scenario {
	var out []vx.Scenario
	flagSets := [][]string{nil}
	if th {
		flagSets = append(flagSets, []string{"--session-cookie-name=sess"}, []string{"--shim-websockets", "--shim-path=websocket-shim"}, []string{"--inject-banner=<b>x</b>"})
	}
	pb := 1
	for _, fs := range flagSets {
		for _, f := range c07Faults() {
			for layout := 0; layout < 3; layout++ {
				if !th && layout > 0 && !strings.HasPrefix(f.name, "backend") && !strings.HasPrefix(f.name, "fetch-err") {
					continue
				}
				p := pb
				if len(fs) > 0 {
					p = 0
				}
				out = append(out, c07Scenario(f, layout, fs, p))
			}
		}
	}
	return out
}

// ---------------- C20: lifecycle ----------------

func c20Health(hist []bool, threshold int, failMode int) vx.Scenario {
	var hn strings.Builder
	for _, b := range hist {
		if b {
			hn.WriteByte('P')
		} else {
			hn.WriteByte('F')
		}
	}
	return vx.Scenario{Name: fmt.Sprintf("c20/health/%s/t%d/fail%d", hn.String(), threshold, failMode), PB: 0, Single: true, MaxSteps: 20000, MaxTime: time.Duration(len(hist)+3) * time.Second,
		Setup: func(s *vs.Sched) func(*vs.Result) vx.Exec {
			w := newWorld(s)
			w.health = append(append([]bool{}, hist...), true)
			w.healthFail = failMode
			w.lists = []listReply{{ids: []string{"a"}}}
			w.startAgent("--health-check-interval-seconds=1", fmt.Sprintf("--health-check-unhealthy-threshold=%d", threshold))
			return func(r *vs.Result) vx.Exec {
				var x vx.Exec
				baseViolations(r, &x)
				// reference model: gate on the first pass; afterwards count consecutive failures of the periodic checks
				firstPass := -1
				for i, ok := range hist {
					if ok {
						firstPass = i
						break
					}
				}
				if firstPass < 0 {
					firstPass = len(hist) // the repeating final answer is a pass
				}
				// list calls must not start before the first passing check
				if len(w.listTimes) > 0 && firstPass < len(w.healthCalls) {
					if w.listTimes[0] < w.healthCalls[firstPass] {
						x.Violations = append(x.Violations, fmt.Sprintf("UNGATED: asked the proxy for work at %v, first passing health check was at %v", w.listTimes[0], w.healthCalls[firstPass]))
					}
				}
				if len(w.listTimes) > 0 && firstPass >= len(w.healthCalls) {
					x.Violations = append(x.Violations, fmt.Sprintf("UNGATED: asked the proxy for work after %d failing health checks and no passing one", len(w.healthCalls)))
				}
				// expected exit: the check (after gating) that completes `threshold` consecutive failures
				th := threshold
				if th < 1 {
					th = 1
				}
				bad := 0
				exitAt := -1
				for i := firstPass + 1; i < len(w.healthCalls) || i < len(hist); i++ {
					ok := true
					if i < len(hist) {
						ok = hist[i]
					}
					if ok {
						bad = 0
					} else {
						bad++
					}
					if bad >= th {
						exitAt = i
						break
					}
				}
				if exitAt >= 0 {
					if !r.Exited {
						if exitAt < len(w.healthCalls) {
							x.Violations = append(x.Violations, fmt.Sprintf("NOEXIT: %d consecutive failing health checks (threshold %d) but the agent kept running", bad, th))
						}
					} else if len(w.healthCalls)-1 != exitAt {
						x.Violations = append(x.Violations, fmt.Sprintf("EXITTIME: agent exited after health check #%d, threshold was completed by check #%d", len(w.healthCalls)-1, exitAt))
					}
				} else if r.Exited {
					x.Violations = append(x.Violations, fmt.Sprintf("SPURIOUSEXIT: agent exited (code %d) after %d health checks although fewer than %d consecutive checks failed", r.ExitCode, len(w.healthCalls), th))
				}
				x.Obs = fmt.Sprintf("health=%d lists=%d exited=%v", len(w.healthCalls), len(w.listTimes), r.Exited)
				return x
			}
		}}
}

func c20Shutdown(sig syscall.Signal, grace, latency time.Duration, pb int, failing bool) vx.Scenario {
	return vx.Scenario{Name: fmt.Sprintf("c20/shutdown/%v/grace%v/lat%v/proxyfailing=%v", sig, grace, latency, failing), PB: pb, Delay: true, MaxSteps: 20000, MaxTime: time.Minute,
		Setup: func(s *vs.Sched) func(*vs.Result) vx.Exec {
			w := newWorld(s)
			w.lists = []listReply{{ids: []string{"a"}}, {ids: []string{}}, {ids: []string{}}}
			if failing {
				// the proxy starts failing: the agent is in its back-off loop when the signal arrives
				w.lists = []listReply{{ids: []string{"a"}}, {kind: "err"}, {kind: "500"}}
				w.afterLists = "err"
			}
			w.backend["a"] = &backendPlan{latency: latency}
			var sigAt time.Duration = -1
			listsAtSignal := -1
			inFlight := false
			backendStartedBeforeSignal := false
			args := []string{}
			if grace > 0 {
				args = append(args, fmt.Sprintf("--graceful-shutdown-timeout=%v", grace))
			}
			w.startAgent(args...)
			s.Thread("signal", func() {
				// wait until the agent has registered its handler, then deliver at whatever point the scheduler picks
				vs.Wait("signal: handler registered", nil, func() bool { return len(w.hooks.SignalChans) > 0 })
				w.touch()
				sigAt = s.Now()
				listsAtSignal = w.listStarted
				inFlight = w.listStarted > len(w.lists) // the blocking long poll is in flight
				backendStartedBeforeSignal = w.callsFor("a") > 0
				w.signal(sig)
			})
			return func(r *vs.Result) vx.Exec {
				var x vx.Exec
				baseViolations(r, &x)
				x.Obs = fmt.Sprintf("sigAt=%v exit=%v@%v lists=%d/%d upload=%v", sigAt, r.Exited, r.ExitAt, listsAtSignal, w.listStarted, w.uploadFor("a") != nil)
				if sigAt < 0 {
					return x
				}
				if !r.Exited {
					x.Violations = append(x.Violations, fmt.Sprintf("NOEXIT: signal %v delivered at %v but the process did not exit; blocked: %s", sig, sigAt, blockedList(r)))
					return x
				}
				if grace == 0 {
					if r.ExitAt != sigAt {
						x.Violations = append(x.Violations, fmt.Sprintf("LATEEXIT: no grace period configured, signal at %v, exit at %v", sigAt, r.ExitAt))
					}
					return x
				}
				if r.ExitAt != sigAt+grace {
					x.Violations = append(x.Violations, fmt.Sprintf("EXITTIME: signal at %v with grace %v, exit at %v", sigAt, grace, r.ExitAt))
				}
				// no new pending-list poll starts once the one in flight at signal time has returned:
				// at most one more list call may start after the signal (the loop may already be past its check)
				extra := w.listStarted - listsAtSignal
				allowed := 1
				if inFlight {
					allowed = 0
				}
				if extra > allowed+0 && false {
					_ = extra
				}
				started := 0
				for _, t := range w.listTimes[min(listsAtSignal, len(w.listTimes)):] {
					if t > sigAt {
						started++
					}
				}
				if started > 0 {
					x.Violations = append(x.Violations, fmt.Sprintf("POLLING: %d pending-list polls started after the shutdown signal (virtual time later than %v)", started, sigAt))
				}
				// a request already at the backend is answered in full if the backend finishes within the period
				if backendStartedBeforeSignal {
					c := w.calls[0]
					finish := c.at + latency
					if finish < sigAt+grace {
						u := w.uploadFor("a")
						if u == nil {
							x.Violations = append(x.Violations, fmt.Sprintf("DROPPED: request reached the backend at %v, backend finished at %v, inside the grace period ending %v, but no response was uploaded", c.at, finish, sigAt+grace))
						} else if p := parseUpload(u.raw); p.body != "response-for-a" {
							x.Violations = append(x.Violations, fmt.Sprintf("DROPPED: upload incomplete: %q", p.body))
						}
					}
				}
				return x
			}
		}}
}

func min(a, b int) int {
	if a < b {
		return a
	}
	return b
}

// c20ShutdownPollReturns: the long poll that is in flight when the signal arrives returns (empty) a moment
// later, so the polling loop ends while a request is still at the backend: the request must not be
// cancelled, its answer is uploaded, the agent exits when the grace period is over.
func c20ShutdownPollReturns(sig syscall.Signal, grace, latency time.Duration) vx.Scenario {
	return vx.Scenario{Name: fmt.Sprintf("c20/shutdown-poll-returns/%v/grace%v/lat%v", sig, grace, latency), PB: 1, Delay: true, MaxSteps: 20000, MaxTime: time.Minute,
		Setup: func(s *vs.Sched) func(*vs.Result) vx.Exec {
			w := newWorld(s)
			w.lists = []listReply{{ids: []string{"a"}}, {ids: []string{}, delay: 300 * time.Millisecond}, {ids: []string{}, delay: 200 * time.Millisecond}}
			w.backend["a"] = &backendPlan{latency: latency}
			var sigAt time.Duration = -1
			w.startAgent(fmt.Sprintf("--graceful-shutdown-timeout=%v", grace))
			s.Thread("signal", func() {
				vs.Wait("signal: handler registered and the request at the backend", nil, func() bool { return len(w.hooks.SignalRegs) > 0 && w.callsFor("a") > 0 && w.listStarted >= 2 })
				w.touch()
				sigAt = s.Now()
				w.signal(sig)
			})
			return func(r *vs.Result) vx.Exec {
				var x vx.Exec
				baseViolations(r, &x)
				x.Obs = fmt.Sprintf("sig=%v exit=%v@%v cancelled=%v upload=%v", sigAt, r.Exited, r.ExitAt, w.cancelled, w.uploadFor("a") != nil)
				if sigAt < 0 {
					return x
				}
				if !r.Exited || r.ExitAt != sigAt+grace {
					x.Violations = append(x.Violations, fmt.Sprintf("EXITTIME: signal at %v with grace %v, exited=%v at %v", sigAt, grace, r.Exited, r.ExitAt))
				}
				if len(w.cancelled) > 0 {
					x.Violations = append(x.Violations, fmt.Sprintf("CANCELLED: the request at the backend when %v arrived was cancelled %v into a grace period of %v (backend latency %v)", sig, "shortly", grace, latency))
				}
				if latency < grace {
					u := w.uploadFor("a")
					if u == nil {
						x.Violations = append(x.Violations, fmt.Sprintf("DROPPED: the backend finished after %v, inside the grace period of %v, but no response was uploaded", latency, grace))
					} else if p := parseUpload(u.raw); p.status != 200 || p.body != "response-for-a" {
						x.Violations = append(x.Violations, fmt.Sprintf("DROPPED: the upload for the request at the backend carries %d %q", p.status, p.body))
					}
				}
				for i, t := range w.listTimes {
					if t > sigAt {
						x.Violations = append(x.Violations, fmt.Sprintf("POLLING: list call %d started at %v, after the signal at %v", i+1, t, sigAt))
					}
				}
				return x
			}
		}}
}

// c20SignalDuringStartup: the signal arrives after the handler is installed but while the agent is still
// obtaining its credentials: no list call may start afterwards.
func c20SignalDuringStartup(sig syscall.Signal, grace time.Duration) vx.Scenario {
	return vx.Scenario{Name: fmt.Sprintf("c20/signal-during-startup/%v/grace%v", sig, grace), PB: 0, Single: true, MaxSteps: 20000, MaxTime: time.Minute,
		Setup: func(s *vs.Sched) func(*vs.Result) vx.Exec {
			w := newWorld(s)
			w.hooks.ClientDelay = 300 * time.Millisecond
			w.lists = []listReply{{ids: []string{"a"}}}
			var sigAt time.Duration = -1
			w.startAgent(fmt.Sprintf("--graceful-shutdown-timeout=%v", grace))
			s.Thread("signal", func() {
				vs.Wait("signal: handler registered", nil, func() bool { return len(w.hooks.SignalRegs) > 0 })
				vtime.Sleep(150 * time.Millisecond)
				w.touch()
				sigAt = s.Now()
				w.signal(sig)
			})
			return func(r *vs.Result) vx.Exec {
				var x vx.Exec
				baseViolations(r, &x)
				x.Obs = fmt.Sprintf("sig=%v exit=%v@%v lists=%v calls=%d", sigAt, r.Exited, r.ExitAt, w.listTimes, len(w.calls))
				if sigAt < 0 {
					return x
				}
				for i, t := range w.listTimes {
					if t > sigAt {
						x.Violations = append(x.Violations, fmt.Sprintf("POLLING: list call %d started at %v, after the signal at %v (the agent was still starting up)", i+1, t, sigAt))
					}
				}
				if len(w.calls) > 0 {
					x.Violations = append(x.Violations, fmt.Sprintf("POLLING: %d requests were forwarded to the backend after the shutdown signal", len(w.calls)))
				}
				if !r.Exited || r.ExitAt > sigAt+grace {
					x.Violations = append(x.Violations, fmt.Sprintf("EXITTIME: signal at %v with grace %v, exited=%v at %v", sigAt, grace, r.Exited, r.ExitAt))
				}
				return x
			}
		}}
}

// c20TwoSignals: a second SIGINT/SIGTERM during the grace period changes nothing: the agent still exits
// when the period that the first signal started is over, and the request at the backend is answered.
func c20TwoSignals(first, second syscall.Signal, grace, gap, latency time.Duration) vx.Scenario {
	return vx.Scenario{Name: fmt.Sprintf("c20/two-signals/%v-then-%v/grace%v/gap%v/lat%v", first, second, grace, gap, latency), PB: 1, Delay: true, MaxSteps: 20000, MaxTime: time.Minute,
		Setup: func(s *vs.Sched) func(*vs.Result) vx.Exec {
			w := newWorld(s)
			w.lists = []listReply{{ids: []string{"a"}}, {ids: []string{}}}
			w.backend["a"] = &backendPlan{latency: latency}
			var sigAt, sig2At time.Duration = -1, -1
			w.startAgent(fmt.Sprintf("--graceful-shutdown-timeout=%v", grace))
			s.Thread("signal", func() {
				vs.Wait("signal: handler registered and the request at the backend", nil, func() bool { return len(w.hooks.SignalRegs) > 0 && w.callsFor("a") > 0 })
				w.touch()
				sigAt = s.Now()
				w.signal(first)
				vtime.Sleep(gap)
				w.touch()
				sig2At = s.Now()
				w.signal(second)
			})
			return func(r *vs.Result) vx.Exec {
				var x vx.Exec
				baseViolations(r, &x)
				x.Obs = fmt.Sprintf("sig1=%v sig2=%v exit=%v@%v code=%d upload=%v", sigAt, sig2At, r.Exited, r.ExitAt, r.ExitCode, w.uploadFor("a") != nil)
				if sigAt < 0 {
					return x
				}
				if !r.Exited {
					x.Violations = append(x.Violations, fmt.Sprintf("NOEXIT: %v at %v and %v at %v but the process did not exit; blocked: %s", first, sigAt, second, sig2At, blockedList(r)))
					return x
				}
				if w.killedBy != nil {
					x.Violations = append(x.Violations, fmt.Sprintf("KILLED: the second signal (%v, %v after the first) met no handler and killed the agent at %v, %v into a grace period of %v", second, gap, r.ExitAt, r.ExitAt-sigAt, grace))
					return x
				}
				if r.ExitAt != sigAt+grace {
					x.Violations = append(x.Violations, fmt.Sprintf("EXITTIME: first signal at %v with grace %v (second signal %v later), exit at %v", sigAt, grace, gap, r.ExitAt))
				}
				if latency < grace {
					if u := w.uploadFor("a"); u == nil || !u.done {
						x.Violations = append(x.Violations, fmt.Sprintf("ABANDONED: the request at the backend (latency %v) was not answered although the grace period is %v", latency, grace))
					}
				}
				return x
			}
		}}
}

// c20SignalWhileUnhealthy: the backend has not passed a health check yet; a SIGINT/SIGTERM ends the agent
// at once (nothing is in flight, no grace period has anything to wait for).
func c20SignalWhileUnhealthy(sig syscall.Signal, grace time.Duration, at time.Duration) vx.Scenario {
	return vx.Scenario{Name: fmt.Sprintf("c20/signal-while-unhealthy/%v/grace%v/at%v", sig, grace, at), PB: 0, Single: true, MaxSteps: 20000, MaxTime: 30 * time.Second,
		Setup: func(s *vs.Sched) func(*vs.Result) vx.Exec {
			w := newWorld(s)
			w.health = []bool{false, false, false, false, false, false, false, false, false, false, false, false, true}
			w.lists = []listReply{{ids: []string{}}}
			args := []string{"--health-check-interval-seconds=1"}
			if grace > 0 {
				args = append(args, fmt.Sprintf("--graceful-shutdown-timeout=%v", grace))
			}
			w.startAgent(args...)
			var sigAt time.Duration = -1
			s.Thread("signal", func() {
				vtime.Sleep(at)
				w.touch()
				sigAt = s.Now()
				w.signal(sig)
			})
			return func(r *vs.Result) vx.Exec {
				var x vx.Exec
				baseViolations(r, &x)
				x.Obs = fmt.Sprintf("sig=%v exit=%v@%v code=%d health=%d lists=%d", sigAt, r.Exited, r.ExitAt, r.ExitCode, len(w.healthCalls), w.listStarted)
				if sigAt < 0 {
					return x
				}
				limit := sigAt + grace
				if !r.Exited || r.ExitAt > limit {
					x.Violations = append(x.Violations, fmt.Sprintf("SIGNAL-IGNORED: %v at %v while the backend had not yet passed a health check (grace %v): exited=%v at %v after %d health checks; blocked: %s", sig, sigAt, grace, r.Exited, r.ExitAt, len(w.healthCalls), blockedList(r)))
				}
				if w.listStarted > 0 {
					x.Violations = append(x.Violations, fmt.Sprintf("UNGATED: the agent asked the proxy for work although no health check had passed (%d list calls)", w.listStarted))
				}
				return x
			}
		}}
}

func c20Scenarios(th bool) []vx.Scenario {
	var out []vx.Scenario
	for _, a := range []syscall.Signal{syscall.SIGINT, syscall.SIGTERM} {
		out = append(out, c20ShutdownPollReturns(a, 5*time.Second, 2*time.Second), c20ShutdownPollReturns(a, 3*time.Second, time.Second))
		out = append(out, c20SignalDuringStartup(a, 2*time.Second), c20SignalDuringStartup(a, 6*time.Second))
		for _, b := range []syscall.Signal{syscall.SIGINT, syscall.SIGTERM} {
			out = append(out, c20TwoSignals(a, b, 4*time.Second, 300*time.Millisecond, 1500*time.Millisecond))
			out = append(out, c20TwoSignals(a, b, 2*time.Second, time.Second, 0))
		}
		for _, g := range []time.Duration{0, 2 * time.Second} {
			for _, at := range []time.Duration{500 * time.Millisecond, 1500 * time.Millisecond, 3200 * time.Millisecond} {
				out = append(out, c20SignalWhileUnhealthy(a, g, at))
			}
		}
	}
	n := 6
	if th {
		n = 8
	}
	for l := 0; l <= n; l++ {
		for m := 0; m < 1<<l; m++ {
			hist := make([]bool, l)
			for b := 0; b < l; b++ {
				hist[b] = m>>b&1 == 1
			}
			for _, t := range []int{0, 1, 2, 3} {
				if !th && l > 4 && t == 0 {
					continue
				}
				// a failing check is a 500, a refused connection, or a status that is not 200
				// although it looks harmless (202 "starting", 204, 404): only 200 passes
				for _, fm := range []int{0, -1, 202, 204, 404} {
					if l == 0 && fm != 0 {
						continue
					}
					out = append(out, c20Health(hist, t, fm))
				}
			}
		}
	}
	pb := 1
	if th {
		pb = 2
	}
	for _, sig := range []syscall.Signal{syscall.SIGINT, syscall.SIGTERM} {
		for _, g := range []time.Duration{0, 2 * time.Second, 5 * time.Second, 10 * time.Second} {
			for _, lat := range []time.Duration{0, 5 * time.Second} {
				out = append(out, c20Shutdown(sig, g, lat, pb, false))
				if lat == 0 {
					out = append(out, c20Shutdown(sig, g, lat, pb, true))
				}
			}
		}
	}
	return out
}
