// Harness injconc (C14): the response-rewriting chain (websocket-shim script
// injection and banner frame) under concurrent requests through one handler.
// The sequential grammar of responses is harness inject; this one explores the
// interleavings of two or three requests whose processing overlaps, including
// the plain-memory accesses of the rewriting code.
package main

import (
	"bufio"
	"context"
	"fmt"
	"io"
	"net/http"
	"net/http/httptest"
	"net/http/httputil"
	"net/url"
	"strings"
	"time"

	"github.com/google/inverting-proxy/agent/banner"
	"github.com/google/inverting-proxy/agent/websockets"
	"github.com/google/inverting-proxy/zz_verif/vs"
	"github.com/google/inverting-proxy/zz_verif/vx"
)

type reqSpec struct {
	path    string // request URI
	accept  string
	framed  bool   // Sec-Fetch-Dest: iframe
	ctype   string // backend content type
	body    string // backend body
	pieces  int    // the backend body arrives in this many reads
	wantRaw bool   // the client must receive exactly body (no frame, no script)
}

type segBody struct {
	pieces []string
	i      int
}

func (s *segBody) Read(p []byte) (int, error) {
	if s.i >= len(s.pieces) {
		return 0, io.EOF
	}
	// a read from the backend connection: another request may run in between
	vs.Point("backend body read", nil)
	n := copy(p, s.pieces[s.i])
	if n < len(s.pieces[s.i]) {
		s.pieces[s.i] = s.pieces[s.i][n:]
	} else {
		s.i++
	}
	return n, nil
}
func (s *segBody) Close() error { return nil }

type backend struct{ specs map[string]reqSpec }

func (b *backend) RoundTrip(r *http.Request) (*http.Response, error) {
	sp := b.specs[r.URL.RequestURI()]
	vs.Point("backend answers", nil)
	var pieces []string
	n := sp.pieces
	if n <= 1 {
		pieces = []string{sp.body}
	} else {
		step := (len(sp.body) + n - 1) / n
		for i := 0; i < len(sp.body); i += step {
			e := i + step
			if e > len(sp.body) {
				e = len(sp.body)
			}
			pieces = append(pieces, sp.body[i:e])
		}
	}
	return &http.Response{StatusCode: 200, Proto: "HTTP/1.1", ProtoMajor: 1, ProtoMinor: 1,
		Header: http.Header{"Content-Type": {sp.ctype}, "X-Backend": {r.URL.RequestURI()}}, Body: &segBody{pieces: pieces}, Request: r}, nil
}

var shimCode string

func initShim() {
	f, _ := websockets.ShimBody("shim")
	body := "<html><head></head></html>"
	r := &http.Response{StatusCode: 200, Header: http.Header{"Content-Type": {"text/html"}}, Body: io.NopCloser(strings.NewReader(body))}
	f(r)
	b, _ := io.ReadAll(r.Body)
	s := string(b)
	i := strings.Index(s, "<head>") + 6
	shimCode = s[i : len(s)-len("</head></html>")]
}

func scenario(cfg string, specs []reqSpec, pb int) vx.Scenario {
	var names []string
	for _, sp := range specs {
		n := sp.path
		if sp.framed {
			n += "(framed)"
		}
		names = append(names, n)
	}
	return vx.Scenario{Name: fmt.Sprintf("c14conc/%s/%v", cfg, names), PB: pb, MaxSteps: 20000, MaxTime: time.Minute,
		Setup: func(s *vs.Sched) func(*vs.Result) vx.Exec {
			target, _ := url.Parse("http://backend.test")
			be := &backend{specs: map[string]reqSpec{}}
			for _, sp := range specs {
				be.specs[sp.path] = sp
			}
			rp := httputil.NewSingleHostReverseProxy(target)
			rp.Transport = be
			var h http.Handler = rp
			if cfg == "shim" || cfg == "both" {
				f, _ := websockets.ShimBody("shim")
				rp.ModifyResponse = f
			}
			if cfg == "banner" || cfg == "both" {
				var err error
				h, err = banner.Proxy(context.Background(), h, "<b>BANNER</b>", "40px", "/fav.ico", nil)
				if err != nil {
					panic(err)
				}
			}
			outs := make([]*httptest.ResponseRecorder, len(specs))
			for i, sp := range specs {
				i, sp := i, sp
				s.Thread(fmt.Sprintf("client%d", i), func() {
					raw := "GET " + sp.path + " HTTP/1.1\r\nHost: client.example\r\n"
					if sp.accept != "" {
						raw += "Accept: " + sp.accept + "\r\n"
					}
					if sp.framed {
						raw += "Sec-Fetch-Dest: iframe\r\n"
					}
					r, err := http.ReadRequest(bufio.NewReader(strings.NewReader(raw + "\r\n")))
					if err != nil {
						panic(err)
					}
					rec := httptest.NewRecorder()
					h.ServeHTTP(rec, r)
					outs[i] = rec
				})
			}
			return func(r *vs.Result) vx.Exec {
				var x vx.Exec
				for _, p := range r.Panics {
					x.Violations = append(x.Violations, "PANIC: "+p)
				}
				for _, b := range r.Blocked {
					x.Violations = append(x.Violations, "STUCK: "+b.Thread+" at "+b.Op)
				}
				if len(x.Violations) > 0 {
					return x
				}
				var obs []string
				for i, sp := range specs {
					o := outs[i]
					if o == nil {
						x.Violations = append(x.Violations, fmt.Sprintf("NOANSWER: request %s got no answer", sp.path))
						continue
					}
					got := o.Body.String()
					isHTML := strings.HasPrefix(sp.ctype, "text/html")
					framedOut := strings.Contains(got, "inverting-proxy-frame") && !strings.Contains(sp.body, "inverting-proxy-frame")
					withShim := sp.body
					if j := strings.Index(sp.body, "<head>"); j >= 0 && isHTML && (cfg == "shim" || cfg == "both") {
						withShim = sp.body[:j+6] + shimCode + sp.body[j+6:]
					}
					wantFrame := (cfg == "banner" || cfg == "both") && isHTML && strings.Contains(sp.accept, "text/html") && !sp.framed
					switch {
					case o.Header().Get("X-Backend") != sp.path && !framedOut:
						x.Violations = append(x.Violations, fmt.Sprintf("CROSSED: request %s was answered with the headers of %q", sp.path, o.Header().Get("X-Backend")))
					case !isHTML:
						if got != sp.body {
							x.Violations = append(x.Violations, fmt.Sprintf("NONHTML-ALTERED: %s (%s): %d bytes became %d while another request was in flight", sp.path, sp.ctype, len(sp.body), len(got)))
						}
					case wantFrame:
						if !framedOut {
							x.Violations = append(x.Violations, fmt.Sprintf("BANNER-MISSING: navigation %s was not answered with the banner frame (%d bytes)", sp.path, len(got)))
						} else {
							if !strings.Contains(got, `src="`+strings.ReplaceAll(sp.path, "&", "&amp;")+`"`) && !strings.Contains(got, `src="`+sp.path+`"`) {
								x.Violations = append(x.Violations, fmt.Sprintf("BANNER-URL: the banner frame served for %s does not embed that URL: %s", sp.path, clipFrame(got)))
							}
							if !strings.Contains(got, "<b>BANNER</b>") {
								x.Violations = append(x.Violations, "BANNER-MISSING: frame served without the banner for "+sp.path)
							}
						}
					default:
						if framedOut {
							x.Violations = append(x.Violations, fmt.Sprintf("BANNER-REFRAMED: %s (framed=%v accept=%q) was answered with the banner frame", sp.path, sp.framed, sp.accept))
						} else if got != withShim {
							x.Violations = append(x.Violations, fmt.Sprintf("SHIM-MANGLED: %s: body is neither the original nor the original with the script after the first <head> (%d bytes, original %d)", sp.path, len(got), len(sp.body)))
						}
					}
					obs = append(obs, fmt.Sprintf("%s:%d/%v", sp.path, len(got), framedOut))
				}
				x.Obs = strings.Join(obs, " ")
				return x
			}
		}}
}

func clipFrame(s string) string {
	i := strings.Index(s, "src=")
	if i < 0 {
		return "(no src attribute)"
	}
	e := i + 60
	if e > len(s) {
		e = len(s)
	}
	return s[i:e]
}

func scenarios(tier string) []vx.Scenario {
	th := tier == "thorough"
	pb := 2
	if th {
		pb = 3
	}
	html := func(tag string, n int) string {
		return "<html><head><title>" + tag + "</title></head><body>" + strings.Repeat(tag, n) + "</body></html>"
	}
	nav := func(p, tag string, pieces int) reqSpec {
		return reqSpec{path: p, accept: "text/html,*/*", ctype: "text/html; charset=utf-8", body: html(tag, 40), pieces: pieces}
	}
	framed := func(p, tag string, pieces int) reqSpec {
		r := nav(p, tag, pieces)
		r.framed = true
		return r
	}
	img := reqSpec{path: "/logo.png", accept: "image/*", ctype: "image/png", body: "\x89PNG<head>" + strings.Repeat("\x00\x01", 200), pieces: 2}
	api := reqSpec{path: "/api?q=1", accept: "application/json", ctype: "application/json", body: `{"html":"<head></head>"}`, pieces: 1}
	var out []vx.Scenario
	for _, cfg := range []string{"banner", "both", "shim"} {
		out = append(out, scenario(cfg, []reqSpec{nav("/a?x=1", "A", 1), nav("/b?y=2&z=3", "B", 1)}, pb))
		out = append(out, scenario(cfg, []reqSpec{nav("/a?x=1", "A", 2), framed("/b", "B", 2)}, pb))
		out = append(out, scenario(cfg, []reqSpec{framed("/a", "A", 3), framed("/b", "B", 2)}, pb))
		out = append(out, scenario(cfg, []reqSpec{framed("/a", "A", 2), img}, pb))
		out = append(out, scenario(cfg, []reqSpec{nav("/a", "A", 1), api}, pb))
		out = append(out, scenario(cfg, []reqSpec{nav("/a?x=1", "A", 1), nav("/b", "B", 1), framed("/c", "C", 2)}, pb-1))
		if th {
			out = append(out, scenario(cfg, []reqSpec{framed("/a", "A", 3), framed("/b", "B", 3), img}, pb-1))
		}
	}
	return out
}

func main() {
	vx.Main(&vx.Harness{Property: "C14", Name: "injconc", Scenarios: func(tier string) []vx.Scenario {
		if shimCode == "" {
			initShim()
		}
		return scenarios(tier)
	}})
}
