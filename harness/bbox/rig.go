// Harness bbox: the two real programs (server/ and agent/), built from the
// current tree, run as processes and driven black-box over loopback: a raw TCP
// client talks to the proxy, a scripted raw TCP server plays the backend, a fake
// metadata server hands the agent its credentials. Bounded-exhaustive request
// (C02) and response (C03) grammars.
package main

import (
	"bufio"
	"bytes"
	"encoding/json"
	"fmt"
	"io"
	"net"
	"net/http"
	"net/http/httptest"
	"os"
	"os/exec"
	"path/filepath"
	"regexp"
	"strings"
	"sync"
	"syscall"
	"time"

	"golang.org/x/net/http2"
	"golang.org/x/net/http2/h2c"
)

type backendScript struct {
	raw        []byte // bytes to answer with (nil: default 200 "ok")
	closeAfter bool
	// structured form, played by the HTTP/2 (h2c) backend
	interim    []http.Header // 103 responses to send first
	status     int
	header     http.Header
	pieces     [][]byte // body pieces, flushed one by one
	announceCL bool
	declared   http.Header // trailers announced in "Trailer" before the body
	undeclared http.Header // trailers sent with the http.TrailerPrefix convention
}

type seenRequest struct {
	method, target, host string
	header               http.Header
	body                 []byte
	err                  string
}

type rig struct {
	dir       string
	md        *httptest.Server
	backend   net.Listener
	proxyCmd  *exec.Cmd
	agentCmd  *exec.Cmd
	proxyAddr string
	mu        sync.Mutex
	scripts   map[string]*backendScript // by X-Case
	h2        bool
	seen      map[string]*seenRequest
}

func buildBinaries(dir string) error {
	for _, b := range [][2]string{{"proxy", "./server"}, {"agent", "./agent"}} {
		cmd := exec.Command("go", "build", "-o", filepath.Join(dir, b[0]), b[1])
		cmd.Dir = "/repo"
		if r := os.Getenv("VERIF_REPO"); r != "" {
			cmd.Dir = r
		}
		cmd.Env = append(os.Environ(), "GOFLAGS=-mod=mod", "GOPROXY=off", "GOSUMDB=off", "GOTOOLCHAIN=local")
		if out, err := cmd.CombinedOutput(); err != nil {
			return fmt.Errorf("go build %s: %v\n%s", b[1], err, out)
		}
	}
	return nil
}

func startRig(bindir string, h2 bool) (*rig, error) {
	r := &rig{scripts: map[string]*backendScript{}, seen: map[string]*seenRequest{}, h2: h2}
	var err error
	r.dir, err = os.MkdirTemp("", "bbox-home-")
	if err != nil {
		return nil, err
	}
	r.md = httptest.NewServer(http.HandlerFunc(func(w http.ResponseWriter, q *http.Request) {
		switch {
		case strings.HasPrefix(q.URL.Path, "/computeMetadata/v1/project/project-id"):
			io.WriteString(w, "12345")
		case strings.HasPrefix(q.URL.Path, "/computeMetadata/v1/instance/service-accounts/") && strings.HasSuffix(q.URL.Path, "/token"):
			json.NewEncoder(w).Encode(map[string]interface{}{"access_token": "t", "expires_in": 100000, "token_type": "Bearer"})
		default:
			io.WriteString(w, "ok")
		}
	}))
	r.backend, err = net.Listen("tcp", "127.0.0.1:0")
	if err != nil {
		return nil, err
	}
	if h2 {
		srv := &http.Server{Handler: h2c.NewHandler(http.HandlerFunc(r.h2Handler), &http2.Server{})}
		go srv.Serve(r.backend)
	} else {
		go r.serveBackend()
	}
	r.proxyCmd = exec.Command(filepath.Join(bindir, "proxy"), "--port=0")
	r.proxyCmd.SysProcAttr = &syscall.SysProcAttr{Pdeathsig: syscall.SIGKILL}
	pe, _ := r.proxyCmd.StderrPipe()
	if err := r.proxyCmd.Start(); err != nil {
		return nil, err
	}
	sc := bufio.NewScanner(pe)
	re := regexp.MustCompile(`Listening on .*:(\d+)`)
	port := ""
	deadline := time.Now().Add(20 * time.Second)
	for sc.Scan() {
		if m := re.FindStringSubmatch(sc.Text()); m != nil {
			port = m[1]
			break
		}
		if time.Now().After(deadline) {
			break
		}
	}
	if port == "" {
		return nil, fmt.Errorf("proxy did not report its port")
	}
	go io.Copy(io.Discard, pe)
	r.proxyAddr = "127.0.0.1:" + port
	args := []string{"--backend=b", "--proxy=http://" + r.proxyAddr + "/", "--host=" + r.backend.Addr().String()}
	if h2 {
		args = append(args, "--force-http2")
	}
	r.agentCmd = exec.Command(filepath.Join(bindir, "agent"), args...)
	r.agentCmd.Env = []string{"PATH=", "HOME=" + r.dir, "GCE_METADATA_HOST=" + strings.TrimPrefix(r.md.URL, "http://")}
	r.agentCmd.Stderr = io.Discard
	r.agentCmd.SysProcAttr = &syscall.SysProcAttr{Pdeathsig: syscall.SIGKILL}
	if err := r.agentCmd.Start(); err != nil {
		return nil, err
	}
	// wait until a request gets through
	for i := 0; i < 200; i++ {
		resp, err := r.roundTrip("warm", []byte("GET /warm HTTP/1.1\r\nHost: x\r\nX-Case: warm\r\nConnection: close\r\n\r\n"), 3*time.Second)
		if err == nil && bytes.HasPrefix(resp, []byte("HTTP/1.1 200")) {
			return r, nil
		}
		time.Sleep(50 * time.Millisecond)
	}
	r.stop()
	return nil, fmt.Errorf("rig did not come up")
}

func (r *rig) stop() {
	if r.agentCmd != nil && r.agentCmd.Process != nil {
		r.agentCmd.Process.Kill()
		r.agentCmd.Wait()
	}
	if r.proxyCmd != nil && r.proxyCmd.Process != nil {
		r.proxyCmd.Process.Kill()
		r.proxyCmd.Wait()
	}
	if r.backend != nil {
		r.backend.Close()
	}
	if r.md != nil {
		r.md.Close()
	}
	os.RemoveAll(r.dir)
}

// serveBackend: a strict HTTP/1.1 server on raw sockets that records what it receives.
func (r *rig) serveBackend() {
	for {
		c, err := r.backend.Accept()
		if err != nil {
			return
		}
		go func(c net.Conn) {
			defer c.Close()
			br := bufio.NewReaderSize(c, 64<<10)
			for {
				req, err := http.ReadRequest(br)
				if err != nil {
					return
				}
				body, berr := io.ReadAll(req.Body)
				id := req.Header.Get("X-Case")
				s := &seenRequest{method: req.Method, target: req.RequestURI, host: req.Host, header: req.Header, body: body}
				if berr != nil {
					s.err = berr.Error()
				}
				r.mu.Lock()
				r.seen[id] = s
				sc := r.scripts[id]
				r.mu.Unlock()
				if sc == nil || sc.raw == nil {
					c.Write([]byte("HTTP/1.1 200 OK\r\nContent-Length: 2\r\nX-Default: 1\r\n\r\nok"))
					continue
				}
				c.Write(sc.raw)
				if sc.closeAfter {
					return
				}
			}
		}(c)
	}
}

// h2Handler is the HTTP/2 cleartext backend: it records the request and plays the structured script.
func (r *rig) h2Handler(w http.ResponseWriter, req *http.Request) {
	body, berr := io.ReadAll(req.Body)
	id := req.Header.Get("X-Case")
	s := &seenRequest{method: req.Method, target: req.RequestURI, host: req.Host, header: req.Header, body: body}
	if berr != nil {
		s.err = berr.Error()
	}
	r.mu.Lock()
	r.seen[id] = s
	sc := r.scripts[id]
	r.mu.Unlock()
	if sc == nil || sc.status == 0 {
		w.Header().Set("X-Default", "1")
		w.Write([]byte("ok"))
		return
	}
	for _, ih := range sc.interim {
		for k, v := range ih {
			w.Header()[k] = v
		}
		w.WriteHeader(103)
		for k := range ih {
			w.Header().Del(k)
		}
	}
	for k, v := range sc.header {
		w.Header()[k] = v
	}
	var names []string
	for k := range sc.declared {
		names = append(names, k)
	}
	if len(names) > 0 {
		w.Header().Set("Trailer", strings.Join(names, ", "))
	}
	total := 0
	for _, p := range sc.pieces {
		total += len(p)
	}
	if sc.announceCL {
		w.Header().Set("Content-Length", fmt.Sprint(total))
	}
	w.WriteHeader(sc.status)
	fl, _ := w.(http.Flusher)
	for _, p := range sc.pieces {
		w.Write(p)
		if fl != nil {
			fl.Flush()
		}
	}
	for k, v := range sc.declared {
		w.Header()[k] = v
	}
	for k, v := range sc.undeclared {
		w.Header()[http.TrailerPrefix+k] = v
	}
}

// roundTrip sends raw bytes to the proxy on a fresh connection and reads until the proxy closes it.
func (r *rig) roundTrip(id string, raw []byte, timeout time.Duration) ([]byte, error) {
	c, err := net.DialTimeout("tcp", r.proxyAddr, 5*time.Second)
	if err != nil {
		return nil, err
	}
	defer c.Close()
	c.SetDeadline(time.Now().Add(timeout))
	go func() { c.Write(raw) }()
	return io.ReadAll(c)
}

func (r *rig) setScript(id string, s *backendScript) {
	r.mu.Lock()
	r.scripts[id] = s
	r.mu.Unlock()
}

func (r *rig) takeSeen(id string) *seenRequest {
	r.mu.Lock()
	defer r.mu.Unlock()
	s := r.seen[id]
	delete(r.seen, id)
	delete(r.scripts, id)
	return s
}
