package main

import (
	"bufio"
	"bytes"
	"crypto/sha256"
	"flag"
	"fmt"
	"io"
	"net/http"
	"os"
	"path/filepath"
	"strings"
	"time"

	"github.com/google/inverting-proxy/zz_verif/vx"
)

var prop = flag.String("prop", "C02", "C02|C03")

var theRig, theRigH2 *rig

func binDir() string {
	wd, _ := os.Getwd()
	return filepath.Join(wd, "bbox-bin")
}

func initRig(tier string) {
	isWorker := flag.Lookup("worker").Value.String() == "true"
	if !isWorker {
		os.MkdirAll(binDir(), 0755)
		if err := buildBinaries(binDir()); err != nil {
			fmt.Fprintln(os.Stderr, err)
			os.Exit(3)
		}
		if flag.Lookup("replay").Value.String() == "" {
			return
		}
	}
	var err error
	for i := 0; i < 3; i++ {
		theRig, err = startRig(binDir(), false)
		if err == nil {
			break
		}
		theRig = nil
	}
	if theRig == nil {
		rigErr = "the black-box rig (proxy, agent, backend processes) did not come up: " + err.Error()
		return
	}
	for i := 0; i < 3; i++ {
		theRigH2, err = startRig(binDir(), true)
		if err == nil {
			return
		}
		theRigH2 = nil
	}
	rigErr = "the black-box rig with the HTTP/2 backend did not come up: " + err.Error()
	theRig.stop()
	theRig = nil
}

var rigErr string

var hopByHop = map[string]bool{"Connection": true, "Keep-Alive": true, "Proxy-Authenticate": true, "Proxy-Authorization": true, "Te": true, "Trailer": true, "Transfer-Encoding": true, "Upgrade": true, "Proxy-Connection": true}

func patterned(n int, seed byte) []byte {
	b := make([]byte, n)
	for i := range b {
		b[i] = byte((i*31 + int(seed) + i/257) % 251)
	}
	return b
}

func chunked(body []byte, size int) []byte {
	var sb bytes.Buffer
	for len(body) > 0 {
		n := size
		if n > len(body) || n <= 0 {
			n = len(body)
		}
		fmt.Fprintf(&sb, "%x\r\n", n)
		sb.Write(body[:n])
		sb.WriteString("\r\n")
		body = body[n:]
	}
	sb.WriteString("0\r\n\r\n")
	return sb.Bytes()
}

// ---------------- C02 ----------------

type hdrSet struct {
	name  string
	lines []string
}

var (
	c02Methods = []string{"GET", "HEAD", "POST", "PUT", "PATCH", "DELETE", "OPTIONS"}
	c02Targets = []string{"/", "/a/b", "/a%2Fb", "/a%20b/", "/%E2%82%AC", "/a//b", "/a/./b", "/a/../b", "/a?x=1&y=2", "/a?x=1&x=2", "/a?x=%26%3D", "/a?", "/a?x", "/" + strings.Repeat("p", 2048)}
	c02Hosts   = []string{"", "other.example:8443"}
	c02Headers = []hdrSet{
		{"none", nil},
		{"custom", []string{"X-Custom: v1"}},
		{"repeated", []string{"X-Multi: first", "X-Multi: second", "X-Multi: third"}},
		{"casings", []string{"X-Case-Mix: a", "x-case-mix: b"}},
		{"empty", []string{"X-Empty:"}},
		{"big", []string{"X-Big: " + strings.Repeat("v", 8192)}},
		{"cookies", []string{"Cookie: a=1", "Cookie: b=2"}},
		{"accept-encoding", []string{"Accept-Encoding: gzip"}},
		{"user-agent", []string{"User-Agent: probe/1.0"}},
		{"hop", []string{"X-Hop: secret", "Keep-Alive: timeout=5", "TE: trailers", "Proxy-Authorization: Basic eA==", "Upgrade: foo"}},
		{"forwarded", []string{"X-Forwarded-For: 203.0.113.9", "Via: 1.1 edge", "Accept-Language: en", "Accept-Language: de"}},
	}
	c02Sizes    = []int{0, 1, 4095, 4096, 4097, 32767, 32768, 32769}
	c02Framings = []string{"cl", "chunk1", "chunk1000", "chunkall"}
)

type c02Case struct {
	h2                   bool
	method, target, host string
	hs                   hdrSet
	size                 int
	framing              string
}

var c02Cases []c02Case

func buildC02(tier string) {
	c02Cases = nil
	withBody := map[string]bool{"POST": true, "PUT": true, "PATCH": true, "DELETE": true}
	for mi, m := range c02Methods {
		for ti, t := range c02Targets {
			for hi, h := range c02Hosts {
				for si, hs := range c02Headers {
					if !withBody[m] {
						c02Cases = append(c02Cases, c02Case{false, m, t, h, hs, 0, "none"})
						continue
					}
					for zi, sz := range c02Sizes {
						for fi, fr := range c02Framings {
							if sz == 0 && fi > 1 {
								continue
							}
							// quick: a covering subset of the body axis per (method,target,host,headers) cell
							if tier != "thorough" && (mi+ti+hi+si+zi+fi)%2 != 0 {
								continue
							}
							if fr == "chunk1" && sz > 5000 && (ti+si)%4 != 0 {
								continue
							}
							c02Cases = append(c02Cases, c02Case{false, m, t, h, hs, sz, fr})
						}
					}
				}
			}
		}
	}
	// the same requests towards an HTTP/2 (h2c) backend (agent --force-http2): every 3rd / every member
	for i, c := range append([]c02Case{}, c02Cases...) {
		if tier == "thorough" || i%3 == 0 {
			c.h2 = true
			c02Cases = append(c02Cases, c)
		}
	}
	// large bodies
	big := []int{1<<20 + 1}
	if tier == "thorough" {
		big = append(big, 8<<20, 32<<20)
	}
	for _, sz := range big {
		for _, fr := range []string{"cl", "chunkall", "chunk1000"} {
			if sz > 1<<21 && fr == "chunk1000" {
				continue
			}
			c02Cases = append(c02Cases, c02Case{false, "POST", "/upload?x=1", "", c02Headers[2], sz, fr}, c02Case{false, "PUT", "/a%2Fb", "other.example:8443", c02Headers[6], sz, fr})
		}
	}
}

func (c c02Case) String() string {
	p := ""
	if c.h2 {
		p = "[h2c backend] "
	}
	return p + fmt.Sprintf("%s %s host=%q headers=%s body=%d/%s", c.method, clipS(c.target), c.host, c.hs.name, c.size, c.framing)
}

func clipS(s string) string {
	if len(s) > 60 {
		return s[:30] + "…" + s[len(s)-10:]
	}
	return s
}

func evalC02(tier string, i int) vx.Exec {
	if theRig == nil {
		return vx.Exec{Infra: rigErr}
	}
	c := c02Cases[i]
	id := fmt.Sprintf("c%d", i)
	var x vx.Exec
	body := patterned(c.size, byte(i))
	host := c.host
	if host == "" {
		host = theRig.proxyAddr
		if c.h2 {
			host = theRigH2.proxyAddr
		}
	}
	var sb bytes.Buffer
	fmt.Fprintf(&sb, "%s %s HTTP/1.1\r\nHost: %s\r\nX-Case: %s\r\n", c.method, c.target, host, id)
	conn := "close"
	for _, l := range c.hs.lines {
		sb.WriteString(l + "\r\n")
		if strings.HasPrefix(l, "X-Hop:") {
			conn = "close, X-Hop"
		}
	}
	fmt.Fprintf(&sb, "Connection: %s\r\n", conn)
	switch c.framing {
	case "cl":
		fmt.Fprintf(&sb, "Content-Length: %d\r\n\r\n", len(body))
		sb.Write(body)
	case "chunk1":
		sb.WriteString("Transfer-Encoding: chunked\r\n\r\n")
		sb.Write(chunked(body, 1))
	case "chunk1000":
		sb.WriteString("Transfer-Encoding: chunked\r\n\r\n")
		sb.Write(chunked(body, 1000))
	case "chunkall":
		sb.WriteString("Transfer-Encoding: chunked\r\n\r\n")
		sb.Write(chunked(body, 0))
	default:
		sb.WriteString("\r\n")
	}
	rg := theRig
	if c.h2 {
		rg = theRigH2
	}
	resp, err := rg.roundTrip(id, sb.Bytes(), 60*time.Second)
	seen := rg.takeSeen(id)
	x.Nontrivial = true
	if err != nil && len(resp) == 0 {
		x.Violations = append(x.Violations, fmt.Sprintf("NORESPONSE: %s: %v", c, err))
		return x
	}
	if seen == nil {
		x.Violations = append(x.Violations, fmt.Sprintf("NOTFORWARDED: the backend never received %s (client got %q)", c, clipS(string(resp))))
		return x
	}
	if seen.err != "" {
		x.Violations = append(x.Violations, fmt.Sprintf("BODYBROKEN: the backend could not read the body of %s: %s", c, seen.err))
	}
	if seen.method != c.method {
		x.Violations = append(x.Violations, fmt.Sprintf("METHOD: backend received %s for %s", seen.method, c))
	}
	if seen.target != c.target {
		x.Violations = append(x.Violations, fmt.Sprintf("TARGET: backend received request target %q, the client sent %q (%s)", clipS(seen.target), clipS(c.target), c))
	}
	if seen.host != host {
		x.Violations = append(x.Violations, fmt.Sprintf("HOST: backend received Host %q, the client sent %q (%s)", seen.host, host, c))
	}
	// end-to-end fields: same values in the same order
	sent := http.Header{}
	named := map[string]bool{}
	for _, l := range c.hs.lines {
		kv := strings.SplitN(l, ":", 2)
		sent.Add(kv[0], strings.TrimSpace(kv[1]))
	}
	if conn != "close" {
		named["X-Hop"] = true
	}
	for k, vals := range sent {
		if named[k] {
			// a field nominated by the client's Connection header: the property's hop-by-hop
			// set is the fixed table, so forwarding or dropping it are both accepted
			continue
		}
		if hopByHop[k] {
			if got := seen.header[k]; len(got) > 0 {
				x.Violations = append(x.Violations, fmt.Sprintf("HOPBYHOP: hop-by-hop field %s: %q was forwarded to the backend (%s)", k, got, c))
			}
			continue
		}
		got := seen.header[k]
		if c.h2 && k == "Cookie" {
			// RFC 7540 8.1.2.5: an HTTP/2 endpoint concatenates cookie crumbs with "; " before
			// handing them to the application: the rig's own h2c server does that
			got = []string{strings.Join(got, "; ")}
			vals = []string{strings.Join(vals, "; ")}
		}
		// a proxy may combine repeated fields into one comma-separated value only for Cookie? no: demand the same list
		if strings.Join(got, "\x00") != strings.Join(vals, "\x00") {
			x.Violations = append(x.Violations, fmt.Sprintf("HEADER: field %s arrived as %q, the client sent %q (%s)", k, clipVals(got), clipVals(vals), c))
		}
	}
	if !bytes.Equal(seen.body, body) {
		x.Violations = append(x.Violations, fmt.Sprintf("BODY: backend received %d body bytes (sha %x), the client sent %d (sha %x), first difference at %d (%s)", len(seen.body), sha256.Sum256(seen.body), len(body), sha256.Sum256(body), firstDiff(seen.body, body), c))
	}
	x.Obs = fmt.Sprintf("%s -> backend saw %s %s host=%s hdrs=%d body=%d", c, seen.method, clipS(seen.target), seen.host, len(seen.header), len(seen.body))
	return x
}

func clipVals(v []string) []string {
	var o []string
	for _, s := range v {
		o = append(o, clipS(s))
	}
	return o
}

func firstDiff(a, b []byte) int {
	n := len(a)
	if len(b) < n {
		n = len(b)
	}
	for i := 0; i < n; i++ {
		if a[i] != b[i] {
			return i
		}
	}
	return n
}

// ---------------- C03 ----------------

type c03Case struct {
	h2       bool
	method   string
	status   int
	hs       hdrSet
	size     int
	framing  string // cl, chunk1first, chunkall, close
	trailers string // none, t1d, t2d, t3d, t1u, t1d1u, hopname
	interim  string // none, 103, 100, two
}

var (
	c03Statuses = []int{200, 201, 204, 206, 301, 304, 400, 404, 500, 503, 599}
	c03Headers  = []hdrSet{
		{"none", nil},
		{"setcookie3", []string{"Set-Cookie: a=1; Path=/", "Set-Cookie: b=2", "Set-Cookie: c=3; HttpOnly"}},
		{"repeated", []string{"X-Multi: first", "X-Multi: second"}},
		{"empty", []string{"X-Empty:"}},
		{"big", []string{"X-Big: " + strings.Repeat("v", 8192)}},
		{"hop", []string{"Connection: X-Hop", "X-Hop: secret", "Keep-Alive: timeout=5", "Proxy-Authenticate: Basic"}},
		{"types", []string{"Content-Type: application/octet-stream", "Cache-Control: no-store", "Etag: \"v\"", "Location: /elsewhere"}},
	}
	c03Sizes    = []int{0, 1, 2, 4095, 4096, 4097, 32769}
	c03Framings = []string{"cl", "chunk1first", "chunkall"}
	c03Trailers = []string{"none", "t1d", "t2d", "t3d", "t1u", "t1d1u", "hopname"}
	c03Interims = []string{"none", "103", "100", "two"}
)

var c03Cases []c03Case

func buildC03(tier string) {
	c03Cases = nil
	for mi, m := range []string{"GET", "HEAD"} {
		for si, st := range c03Statuses {
			for hi, hs := range c03Headers {
				for zi, sz := range c03Sizes {
					for fi, fr := range c03Framings {
						for ti, tr := range c03Trailers {
							for ii, in := range c03Interims {
								if tr != "none" && fr == "cl" {
									continue // trailers need chunked framing
								}
								if (st == 204 || st == 304) && (sz > 0 || tr != "none") {
									continue
								}
								k := mi + si + hi + zi + fi + ti + ii
								if tier != "thorough" && k%3 != 0 {
									continue
								}
								c03Cases = append(c03Cases, c03Case{false, m, st, hs, sz, fr, tr, in})
							}
						}
					}
				}
			}
		}
	}
	for _, tr := range []string{"none", "t2d"} {
		c03Cases = append(c03Cases, c03Case{false, "GET", 200, c03Headers[1], 1<<20 + 1, "chunkall", tr, "none"}, c03Case{false, "GET", 200, c03Headers[0], 1<<20 + 1, "cl", "none", "none"})
	}
	// the same responses from an HTTP/2 (h2c) backend; hop-by-hop fields and 100-continue do not exist there
	for i, c := range append([]c03Case{}, c03Cases...) {
		if c.hs.name == "hop" || c.interim == "100" || c.trailers == "hopname" {
			continue
		}
		if tier == "thorough" || i%2 == 0 {
			c.h2 = true
			c03Cases = append(c03Cases, c)
		}
	}
}

func (c c03Case) String() string {
	p := ""
	if c.h2 {
		p = "[h2c backend] "
	}
	return p + fmt.Sprintf("%s -> %d headers=%s body=%d/%s trailers=%s interim=%s", c.method, c.status, c.hs.name, c.size, c.framing, c.trailers, c.interim)
}

func evalC03(tier string, i int) vx.Exec {
	if theRig == nil {
		return vx.Exec{Infra: rigErr}
	}
	c := c03Cases[i]
	id := fmt.Sprintf("r%d", i)
	var x vx.Exec
	x.Nontrivial = true
	body := patterned(c.size, byte(i))
	noBody := c.method == "HEAD" || c.status == 204 || c.status == 304
	// the backend's raw response
	var sb bytes.Buffer
	switch c.interim {
	case "103":
		sb.WriteString("HTTP/1.1 103 Early Hints\r\nLink: </style.css>; rel=preload\r\n\r\n")
	case "100":
		sb.WriteString("HTTP/1.1 100 Continue\r\n\r\n")
	case "two":
		sb.WriteString("HTTP/1.1 103 Early Hints\r\nLink: </a>; rel=preload\r\n\r\nHTTP/1.1 103 Early Hints\r\nLink: </b>; rel=preload\r\n\r\n")
	}
	fmt.Fprintf(&sb, "HTTP/1.1 %d Private Reason\r\nX-Case: %s\r\n", c.status, id)
	for _, l := range c.hs.lines {
		sb.WriteString(l + "\r\n")
	}
	declared := map[string][]string{}
	undeclared := map[string][]string{}
	var trailerLines []string
	switch c.trailers {
	case "t1d":
		declared["X-T1"] = []string{"a"}
	case "t2d":
		declared["X-T1"], declared["X-T2"] = []string{"a"}, []string{"b"}
	case "t3d":
		declared["X-T1"], declared["X-T2"], declared["X-T3"] = []string{"a"}, []string{"b"}, []string{"c1", "c2"}
	case "t1u":
		undeclared["X-U1"] = []string{"u"}
	case "t1d1u":
		declared["X-T1"], undeclared["X-U1"] = []string{"a"}, []string{"u"}
	case "hopname":
		declared["X-T1"] = []string{"a"}
		declared["Keep-Alive"] = []string{"timeout=1"}
	}
	if len(declared) > 0 {
		var names []string
		for _, n := range []string{"X-T1", "X-T2", "X-T3", "Keep-Alive"} {
			if _, ok := declared[n]; ok {
				names = append(names, n)
			}
		}
		sb.WriteString("Trailer: " + strings.Join(names, ", ") + "\r\n")
	}
	for _, m := range []map[string][]string{declared, undeclared} {
		for _, n := range []string{"X-T1", "X-T2", "X-T3", "X-U1", "Keep-Alive"} {
			for _, v := range m[n] {
				trailerLines = append(trailerLines, n+": "+v)
			}
		}
	}
	script := &backendScript{}
	if noBody {
		if c.status == 204 || c.status == 304 {
			sb.WriteString("\r\n")
		} else { // HEAD
			fmt.Fprintf(&sb, "Content-Length: %d\r\n\r\n", len(body))
		}
	} else {
		switch c.framing {
		case "cl":
			fmt.Fprintf(&sb, "Content-Length: %d\r\n\r\n", len(body))
			sb.Write(body)
		default:
			sb.WriteString("Transfer-Encoding: chunked\r\n\r\n")
			rest := body
			if c.framing == "chunk1first" && len(rest) > 1 {
				fmt.Fprintf(&sb, "1\r\n%s\r\n", rest[:1])
				rest = rest[1:]
			}
			if len(rest) > 0 {
				fmt.Fprintf(&sb, "%x\r\n", len(rest))
				sb.Write(rest)
				sb.WriteString("\r\n")
			}
			sb.WriteString("0\r\n")
			for _, l := range trailerLines {
				sb.WriteString(l + "\r\n")
			}
			sb.WriteString("\r\n")
		}
	}
	script.raw = sb.Bytes()
	rg := theRig
	if c.h2 {
		rg = theRigH2
		script.status = c.status
		script.header = http.Header{"X-Case": {id}}
		for _, l := range c.hs.lines {
			kv := strings.SplitN(l, ":", 2)
			script.header.Add(kv[0], strings.TrimSpace(kv[1]))
		}
		switch c.interim {
		case "103":
			script.interim = []http.Header{{"Link": {"</style.css>; rel=preload"}}}
		case "two":
			script.interim = []http.Header{{"Link": {"</a>; rel=preload"}}, {"Link": {"</b>; rel=preload"}}}
		}
		if !noBody {
			script.announceCL = c.framing == "cl"
			if c.framing == "chunk1first" && len(body) > 1 {
				script.pieces = [][]byte{body[:1], body[1:]}
			} else if len(body) > 0 {
				script.pieces = [][]byte{body}
			}
			if c.framing != "cl" {
				script.declared = http.Header{}
				for n, v := range declared {
					script.declared[n] = v
				}
				script.undeclared = http.Header{}
				for n, v := range undeclared {
					script.undeclared[n] = v
				}
			}
		} else if c.method == "HEAD" {
			script.announceCL = true
			script.pieces = [][]byte{body}
		}
	}
	rg.setScript(id, script)
	req := fmt.Sprintf("%s /resp HTTP/1.1\r\nHost: %s\r\nX-Case: %s\r\nTE: trailers\r\nConnection: close, TE\r\n\r\n", c.method, rg.proxyAddr, id)
	raw, err := rg.roundTrip(id, []byte(req), 60*time.Second)
	rg.takeSeen(id)
	if len(raw) == 0 {
		x.Violations = append(x.Violations, fmt.Sprintf("NORESPONSE: %s: %v", c, err))
		return x
	}
	br := bufio.NewReader(bytes.NewReader(raw))
	fakeReq, _ := http.NewRequest(c.method, "http://x/resp", nil)
	resp, perr := http.ReadResponse(br, fakeReq)
	for perr == nil && resp.StatusCode >= 100 && resp.StatusCode < 200 {
		resp, perr = http.ReadResponse(br, fakeReq) // interim responses may be relayed or not
	}
	if perr != nil {
		x.Violations = append(x.Violations, fmt.Sprintf("UNPARSABLE: client could not parse the response to %s: %v (%q)", c, perr, clipS(string(raw))))
		return x
	}
	got, rerr := io.ReadAll(resp.Body)
	if rerr != nil {
		x.Violations = append(x.Violations, fmt.Sprintf("BODYBROKEN: client could not read the body of %s: %v", c, rerr))
	}
	if resp.StatusCode != c.status {
		x.Violations = append(x.Violations, fmt.Sprintf("STATUS: client received status %d, the backend sent %d (%s)", resp.StatusCode, c.status, c))
	}
	sent := http.Header{}
	named := map[string]bool{}
	for _, l := range c.hs.lines {
		kv := strings.SplitN(l, ":", 2)
		sent.Add(kv[0], strings.TrimSpace(kv[1]))
		if kv[0] == "Connection" {
			for _, n := range strings.Split(kv[1], ",") {
				named[http.CanonicalHeaderKey(strings.TrimSpace(n))] = true
			}
		}
	}
	for k, vals := range sent {
		if named[k] {
			continue
		}
		if hopByHop[k] {
			if gotv := resp.Header[k]; len(gotv) > 0 && k != "Connection" {
				x.Violations = append(x.Violations, fmt.Sprintf("HOPBYHOP: hop-by-hop field %s: %q reached the client (%s)", k, gotv, c))
			}
			continue
		}
		if noBody && (k == "Content-Type") && len(resp.Header[k]) == 0 {
			continue // entity headers may be omitted where no body is sent
		}
		if strings.Join(resp.Header[k], "\x00") != strings.Join(vals, "\x00") {
			x.Violations = append(x.Violations, fmt.Sprintf("HEADER: field %s arrived as %q, the backend sent %q (%s)", k, clipVals(resp.Header[k]), clipVals(vals), c))
		}
	}
	if c.interim != "none" && c.interim != "100" {
		sentLink := false
		for _, l := range c.hs.lines {
			sentLink = sentLink || strings.HasPrefix(l, "Link:")
		}
		if v := resp.Header["Link"]; len(v) > 0 && !sentLink {
			x.Violations = append(x.Violations, fmt.Sprintf("INTERIM-LEAK: field Link %q of an interim 103 response showed up in the final response's header (%s)", v, c))
		}
	}
	if resp.Header.Get("X-Case") != id {
		x.Violations = append(x.Violations, fmt.Sprintf("HEADER: X-Case arrived as %q (%s)", resp.Header.Get("X-Case"), c))
	}
	if noBody {
		if len(got) != 0 {
			x.Violations = append(x.Violations, fmt.Sprintf("BODY: %d body bytes for a response that has none (%s)", len(got), c))
		}
	} else if !bytes.Equal(got, body) {
		x.Violations = append(x.Violations, fmt.Sprintf("BODY: client received %d body bytes, the backend sent %d, first difference at %d (%s)", len(got), len(body), firstDiff(got, body), c))
	}
	if !noBody && c.framing != "cl" {
		want := http.Header{}
		for n, v := range declared {
			if !hopByHop[http.CanonicalHeaderKey(n)] {
				want[n] = v
			}
		}
		for n, v := range undeclared {
			want[n] = v
		}
		for n, v := range want {
			if strings.Join(resp.Trailer[n], "\x00") != strings.Join(v, "\x00") {
				x.Violations = append(x.Violations, fmt.Sprintf("TRAILER: trailer %s arrived as %q, the backend sent %q (%s)", n, resp.Trailer[n], v, c))
			}
			if len(resp.Header[n]) > 0 {
				x.Violations = append(x.Violations, fmt.Sprintf("TRAILER-AS-HEADER: trailer %s showed up among the response headers: %q (%s)", n, resp.Header[n], c))
			}
		}
		if v := resp.Trailer["Keep-Alive"]; len(v) > 0 {
			x.Violations = append(x.Violations, fmt.Sprintf("HOPBYHOP: hop-by-hop trailer Keep-Alive reached the client (%s)", c))
		}
	}
	x.Obs = fmt.Sprintf("%s => %d hdrs=%d body=%d trailers=%d", c, resp.StatusCode, len(resp.Header), len(got), len(resp.Trailer))
	return x
}

func main() {
	flag.Parse()
	en := &vx.Enum{Property: *prop, Name: "bbox-" + strings.ToLower(*prop), Init: func(tier string) {
		buildC02(tier)
		buildC03(tier)
		initRig(tier)
	}}
	if *prop == "C03" {
		en.Rule = "cases = scripted raw backend responses: request method {GET,HEAD} x final status (11) x header set (7) x body size (7, at buffer boundaries) x backend framing x trailer set (7) x interim 1xx (4) (thorough: the full product, quick: every third member) + 1 MiB bodies; each goes through the real proxy and agent binaries; all cases are distinct and non-trivial"
		en.Total = func(string) int { return len(c03Cases) }
		en.Eval = evalC03
		en.Describe = func(_ string, i int) string { return c03Cases[i].String() }
	} else {
		en.Rule = "cases = raw client requests: method (7) x request target (14, escaped paths and queries) x Host (2) x header set (11: repeated, mixed-case, empty, 8 KiB, cookies, hop-by-hop, ...) x body size (8, at buffer boundaries) x framing (Content-Length, chunked 1/1000/single) (thorough: full product, quick: half of the body axis per cell) + bodies of 1 MiB+1 (thorough: 8 and 32 MiB); each goes through the real proxy and agent binaries; all cases are distinct and non-trivial"
		en.Total = func(string) int { return len(c02Cases) }
		en.Eval = evalC02
		en.Describe = func(_ string, i int) string { return c02Cases[i].String() }
	}
	defer func() {
		if theRig != nil {
			theRig.stop()
		}
		if theRigH2 != nil {
			theRigH2.stop()
		}
	}()
	vx.EnumMain(en)
}
