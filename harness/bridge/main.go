// Harness bridge: tcp-bridge-frontend's main() and connection.Handler joined in
// one process through the in-memory TCP (vnet) and websocket (vws) fakes; the
// TCP client and the TCP server are harness threads.
//
//	-prop C15: write/read plans in both directions, 1-2 connections; FIFO byte-queue reference
//	-prop C16: close/data histories; quiescence oracle (peer sees EOF after all data; nothing left open or parked)
package main

import (
	"bytes"
	"flag"
	"fmt"
	"io"
	"net"
	"net/http"
	"strings"
	"time"
	"unsafe"

	"github.com/google/inverting-proxy/utils/tcpbridge/connection"
	vfrontend "github.com/google/inverting-proxy/zz_verif/p/vtcpbridgefrontend"
	"github.com/google/inverting-proxy/zz_verif/venv"
	"github.com/google/inverting-proxy/zz_verif/vh"
	"github.com/google/inverting-proxy/zz_verif/vnet"
	"github.com/google/inverting-proxy/zz_verif/vs"
	"github.com/google/inverting-proxy/zz_verif/vws"
	"github.com/google/inverting-proxy/zz_verif/vx"
)

var prop = flag.String("prop", "C15", "C15|C16")

func pattern(conn, dir, n int) []byte {
	b := make([]byte, n)
	for i := range b {
		b[i] = byte((i*7 + conn*31 + dir*101 + i/251) % 256)
	}
	return b
}

type world struct {
	s           *vs.Sched
	net         *vnet.World
	ws          *vws.World
	passthrough int
	serverConns []net.Conn
	serverL     net.Listener
}

func setup(s *vs.Sched, serverUp bool) *world {
	w := &world{s: s}
	venv.Reset()
	w.net = vnet.W()
	w.ws = vws.W()
	pass := http.HandlerFunc(func(rw http.ResponseWriter, r *http.Request) { w.passthrough++; rw.WriteHeader(204) })
	w.ws.Handlers["bridge.test:9000"] = connection.Handler(7000, pass)
	if serverUp {
		l, err := vnet.Listen("tcp", "localhost:7000")
		if err != nil {
			panic(err)
		}
		w.serverL = l
	}
	vh.SetArgs("tcp-bridge-frontend", "--frontend-port=8080", "--backend=ws://bridge.test:9000/")
	vfrontend.ResetForTest()
	s.DaemonThread("frontend", func() { vfrontend.Main() })
	return w
}

// dialFrontend waits for the frontend's listener and connects.
func (w *world) dialFrontend() net.Conn {
	for i := 0; i < 50; i++ {
		c, err := vnet.Dial("tcp", "localhost:8080")
		if err == nil {
			return c
		}
		vs.Quiesce()
	}
	panic("frontend never listened")
}

func readAll(c net.Conn, bufSize int, into *[]byte, eof *string) {
	buf := make([]byte, bufSize)
	for {
		n, err := c.Read(buf)
		*into = append(*into, buf[:n]...)
		if err != nil {
			if err == io.EOF {
				*eof = "EOF"
			} else {
				*eof = "ERR:" + err.Error()
			}
			return
		}
	}
}

func base(r *vs.Result, x *vx.Exec) {
	for _, p := range r.Panics {
		x.Violations = append(x.Violations, "PANIC: "+p)
	}
	if r.Exited {
		x.Violations = append(x.Violations, fmt.Sprintf("EXIT: the frontend exited (code %d): %v", r.ExitCode, venv.Hooks.FatalLog))
	}
}

// ---------------- C15 ----------------

type plan struct {
	up, down []int // write sizes client->server, server->client
	rbuf     int   // reader buffer size at both ends
}

func c15Scenario(name string, plans []plan, pb int) vx.Scenario {
	// the streams are schedule-independent when the property holds; schedules are explored
	// (delay-bounded) on the small plans, the large ones run on the default schedule
	big := 0
	for _, p := range plans {
		for _, n := range append(append([]int{}, p.up...), p.down...) {
			big += n / p.rbuf
		}
	}
	return vx.Scenario{Name: name, PB: pb + 1, Delay: true, Single: big > 300, MaxSteps: 400000, MaxTime: time.Minute,
		Setup: func(s *vs.Sched) func(*vs.Result) vx.Exec {
			w := setup(s, true)
			n := len(plans)
			gotUp := make([][]byte, n) // what the server read from connection i
			gotDown := make([][]byte, n)
			eofUp := make([]string, n)
			eofDown := make([]string, n)
			sentUp := make([][]byte, n)
			sentDown := make([][]byte, n)
			// the TCP server: identifies the connection by its first byte
			s.DaemonThread("server-accept", func() {
				for {
					c, err := w.serverL.Accept()
					if err != nil {
						return
					}
					vs.Go(func() {
						hdr := make([]byte, 1)
						if _, err := io.ReadFull(c, hdr); err != nil {
							return
						}
						i := int(hdr[0])
						p := plans[i]
						vs.Go(func() {
							for k, sz := range p.down {
								d := pattern(i, 1, sz+k)[:sz]
								sentDown[i] = append(sentDown[i], d...)
								c.Write(d)
							}
						})
						readAll(c, p.rbuf, &gotUp[i], &eofUp[i])
					})
				}
			})
			for i := range plans {
				i := i
				p := plans[i]
				s.Thread(fmt.Sprintf("client%d", i), func() {
					c := w.dialFrontend()
					c.Write([]byte{byte(i)})
					vs.Go(func() { readAll(c, p.rbuf, &gotDown[i], &eofDown[i]) })
					for k, sz := range p.up {
						d := pattern(i, 0, sz+k)[:sz]
						sentUp[i] = append(sentUp[i], d...)
						c.Write(d)
					}
				})
			}
			return func(r *vs.Result) vx.Exec {
				var x vx.Exec
				base(r, &x)
				var obs []string
				for i := range plans {
					obs = append(obs, fmt.Sprintf("c%d up %d/%d down %d/%d", i, len(gotUp[i]), len(sentUp[i]), len(gotDown[i]), len(sentDown[i])))
					if !bytes.Equal(gotUp[i], sentUp[i]) {
						x.Violations = append(x.Violations, fmt.Sprintf("UPSTREAM: connection %d: server read %d bytes, client wrote %d; first difference at %d (plan %+v)", i, len(gotUp[i]), len(sentUp[i]), firstDiff(gotUp[i], sentUp[i]), plans[i]))
					}
					if !bytes.Equal(gotDown[i], sentDown[i]) {
						x.Violations = append(x.Violations, fmt.Sprintf("DOWNSTREAM: connection %d: client read %d bytes, server wrote %d; first difference at %d (plan %+v)", i, len(gotDown[i]), len(sentDown[i]), firstDiff(gotDown[i], sentDown[i]), plans[i]))
					}
				}
				x.Obs = strings.Join(obs, "; ")
				return x
			}
		}}
}

func firstDiff(a, b []byte) int {
	n := len(a)
	if len(b) < n {
		n = len(b)
	}
	for i := 0; i < n; i++ {
		if a[i] != b[i] {
			return i
		}
	}
	return n
}

// c15Direct drives the exported DialWebsocket connection with small read buffers.
func c15Direct(name string, msgs []int, rbuf int, writeBetween int) vx.Scenario {
	return vx.Scenario{Name: name, PB: 1, MaxSteps: 50000,
		Setup: func(s *vs.Sched) func(*vs.Result) vx.Exec {
			venv.Reset()
			cl, srv := vws.Pair("a", "b")
			ca := &connection.WebsocketNetConn{Conn: cl}
			cb := &connection.WebsocketNetConn{Conn: srv}
			var sent, got, backSent, backGot []byte
			s.Thread("writer", func() {
				for k, n := range msgs {
					d := pattern(0, 0, n+k)[:n]
					sent = append(sent, d...)
					cb.Write(d)
				}
			})
			s.Thread("reader", func() {
				buf := make([]byte, rbuf)
				reads := 0
				total := 0
				for _, n := range msgs {
					total += n
				}
				for len(got) < total {
					n, err := ca.Read(buf)
					got = append(got, buf[:n]...)
					reads++
					if writeBetween > 0 && reads%2 == 1 {
						d := pattern(0, 1, writeBetween)
						backSent = append(backSent, d...)
						ca.Write(d)
					}
					if err != nil {
						return
					}
				}
			})
			s.DaemonThread("backreader", func() {
				var e string
				readAll(cb, 64, &backGot, &e)
			})
			return func(r *vs.Result) vx.Exec {
				var x vx.Exec
				base(r, &x)
				if !bytes.Equal(got, sent) {
					x.Violations = append(x.Violations, fmt.Sprintf("PARTIALREAD: reader with a %d-byte buffer got %d bytes, %d were written; first difference at %d (messages %v, %d-byte writes in between)", rbuf, len(got), len(sent), firstDiff(got, sent), msgs, writeBetween))
				}
				if !bytes.Equal(backGot, backSent) {
					x.Violations = append(x.Violations, fmt.Sprintf("PARTIALREAD: reverse direction got %d of %d bytes", len(backGot), len(backSent)))
				}
				x.Obs = fmt.Sprintf("%d/%d back %d/%d", len(got), len(sent), len(backGot), len(backSent))
				return x
			}
		}}
}

func c15Scenarios(th bool) []vx.Scenario {
	sizes := []int{0, 1, 2, 1024, 1025, 32768, 32769, 70000}
	bufs := []int{1, 7, 4096, 65536}
	var out []vx.Scenario
	// single connection: all plans of <=2 writes per direction (quick: one direction varied at a time)
	for _, rb := range bufs {
		for _, a := range sizes {
			for _, b := range sizes {
				if rb == 1 && (a > 2000 || b > 2000) {
					continue // 1-byte reads of 70 kB: covered by the 7-byte buffer
				}
				if !th && (a+b)%3 == 1 {
					continue
				}
				pb := 0
				if a+b <= 4 || (a == 1024 && b == 1) {
					pb = 1
				}
				out = append(out, c15Scenario(fmt.Sprintf("c15/one/rbuf%d/up[%d %d]/down[%d]", rb, a, b, b), []plan{{up: []int{a, b}, down: []int{b}, rbuf: rb}}, pb))
				if th {
					out = append(out, c15Scenario(fmt.Sprintf("c15/one/rbuf%d/up[%d]/down[%d %d %d]", rb, a, b, a, 1), []plan{{up: []int{a}, down: []int{b, a, 1}, rbuf: rb}}, 0))
				}
			}
		}
	}
	// two concurrent connections
	for _, a := range []int{1, 1025, 32769} {
		for _, b := range []int{2, 1024} {
			pb := 0
			if a == 1 {
				pb = 1
			}
			out = append(out, c15Scenario(fmt.Sprintf("c15/two/[%d]x[%d]", a, b), []plan{{up: []int{a, 3}, down: []int{b}, rbuf: 4096}, {up: []int{b}, down: []int{a, 5}, rbuf: 7}}, pb))
		}
	}
	// partially consumed messages on the exported connection type
	for _, rb := range []int{1, 3, 7, 100} {
		for _, wb := range []int{0, 1, 5, 200} {
			out = append(out, c15Direct(fmt.Sprintf("c15/direct/rbuf%d/write%d", rb, wb), []int{10, 1, 33, 0, 257}, rb, wb))
		}
	}
	return out
}

// ---------------- C16 ----------------

// history operations, executed in order by a driver; each followed by quiescence
// c:N client writes N bytes, s:N server writes N bytes, C client closes, S server closes
func c16Scenario(hist []string, serverUp bool, pb int) vx.Scenario {
	name := fmt.Sprintf("c16/%v/server=%v", hist, serverUp)
	return vx.Scenario{Name: name, PB: pb + 1, Delay: true, MaxSteps: 50000, MaxTime: time.Minute,
		Setup: func(s *vs.Sched) func(*vs.Result) vx.Exec {
			w := setup(s, serverUp)
			var srvConn net.Conn
			var gotUp, gotDown, sentUp, sentDown []byte
			var eofUp, eofDown string
			clientClosed, serverClosed, clientHalf := false, false, false
			if serverUp {
				s.DaemonThread("server", func() {
					c, err := w.serverL.Accept()
					if err != nil {
						return
					}
					vs.Touch(unsafe.Pointer(w))
					srvConn = c
					readAll(c, 4096, &gotUp, &eofUp)
				})
			}
			s.Thread("driver", func() {
				c := w.dialFrontend()
				vs.Go(func() { readAll(c, 4096, &gotDown, &eofDown) })
				vs.Quiesce()
				for _, op := range hist {
					switch op[0] {
					case 'c':
						var n int
						fmt.Sscanf(op[2:], "%d", &n)
						d := pattern(0, 0, n)
						if _, err := c.Write(d); err == nil {
							sentUp = append(sentUp, d...)
						}
					case 's':
						var n int
						fmt.Sscanf(op[2:], "%d", &n)
						if srvConn != nil {
							d := pattern(0, 1, n)
							if _, err := srvConn.Write(d); err == nil {
								sentDown = append(sentDown, d...)
							}
						}
					case 'H':
						// half-close: the client is done sending but still reads
						c.(*vnet.Conn).CloseWrite()
						clientHalf = true
					case 'C':
						c.Close()
						clientClosed = true
					case 'S':
						if srvConn != nil {
							srvConn.Close()
							serverClosed = true
						}
					}
					vs.Quiesce()
				}
			})
			return func(r *vs.Result) vx.Exec {
				var x vx.Exec
				base(r, &x)
				h := strings.Join(hist, " ")
				// data written before a close must arrive, whatever else happens
				if serverUp && !serverClosed && !bytes.Equal(gotUp, sentUp) {
					x.Violations = append(x.Violations, fmt.Sprintf("DATALOSS: server read %d of the %d bytes the client wrote before closing (history %s)", len(gotUp), len(sentUp), h))
				}
				if !clientClosed && !bytes.Equal(gotDown, sentDown) {
					x.Violations = append(x.Violations, fmt.Sprintf("DATALOSS: client read %d of the %d bytes the server wrote before closing (history %s)", len(gotDown), len(sentDown), h))
				}
				if (clientClosed || clientHalf) && serverUp && !serverClosed && srvConn != nil && eofUp == "" {
					x.Violations = append(x.Violations, fmt.Sprintf("NOEOF-SERVER: the client closed but the server never observed end-of-stream (history %s); parked: %s", h, parked(r)))
				}
				if serverClosed && !clientClosed && eofDown == "" {
					x.Violations = append(x.Violations, fmt.Sprintf("NOEOF-CLIENT: the server closed but the client never observed end-of-stream (history %s); parked: %s", h, parked(r)))
				}
				if !serverUp && eofDown == "" && !clientClosed {
					x.Violations = append(x.Violations, fmt.Sprintf("NOEOF-CLIENT: the TCP server is unreachable but the client connection was not closed (history %s)", h))
				}
				bridgeParked := 0
				for _, b := range r.Blocked {
					if strings.HasPrefix(b.Thread, "frontend/") || strings.HasPrefix(b.Thread, "driver/") && strings.Contains(b.Thread, "vws") {
						bridgeParked++
					}
				}
				if (clientClosed && (serverClosed || !serverUp)) && (openBridgeConns(w) > 0 || bridgeThreadsParked(r) > 0) {
					x.Violations = append(x.Violations, fmt.Sprintf("OUTLIVES: both endpoints are gone but the bridge still holds %d connections and %d of its goroutines are parked (history %s): %s", openBridgeConns(w), bridgeThreadsParked(r), h, parked(r)))
				}
				x.Obs = fmt.Sprintf("up %d/%d %s down %d/%d %s open=%d parked=%d", len(gotUp), len(sentUp), eofUp, len(gotDown), len(sentDown), eofDown, openBridgeConns(w), bridgeThreadsParked(r))
				return x
			}
		}}
}

// openBridgeConns counts connection ends the bridge itself opened and has not closed.
func openBridgeConns(w *world) int {
	n := 0
	for _, c := range w.ws.Conns {
		if !c.Closed() {
			n++
		}
	}
	for _, c := range w.net.Conns {
		// ends owned by the bridge: the accepted side of :8080 and the dialling side to :7000
		if !c.Closed() && (strings.HasPrefix(c.Name, "localhost:8080->") || strings.HasSuffix(c.Name, "->localhost:7000")) {
			n++
		}
	}
	return n
}

func bridgeThreadsParked(r *vs.Result) int {
	n := 0
	for _, b := range r.Blocked {
		if b.Thread == "frontend" {
			continue // the accept loop
		}
		if strings.HasPrefix(b.Thread, "frontend/") || strings.Contains(b.Thread, "@vws.go") {
			n++
		}
	}
	return n
}

func parked(r *vs.Result) string {
	var p []string
	for _, b := range r.Blocked {
		if !b.Daemon || strings.HasPrefix(b.Thread, "frontend/") {
			p = append(p, b.Thread+" in "+b.Op)
		}
	}
	return strings.Join(p, "; ")
}

func c16Scenarios(th bool) []vx.Scenario {
	ops := []string{"c:10", "s:10", "C", "S", "H", "c:40000"}
	depth := 3
	if th {
		depth = 4
	}
	var out []vx.Scenario
	var rec func(h []string)
	rec = func(h []string) {
		if len(h) > 0 {
			hasClose := false
			for _, o := range h {
				if o == "C" || o == "S" || o == "H" {
					hasClose = true
				}
			}
			if hasClose {
				pb := 0
				if len(h) <= 2 {
					pb = 2
				} else if len(h) == 3 && th {
					pb = 1
				}
				out = append(out, c16Scenario(append([]string{}, h...), true, pb))
			}
		}
		if len(h) == depth {
			return
		}
		for _, o := range ops {
			// nothing can follow both closes; a closed side cannot write
			c, sv := false, false
			for _, p := range h {
				c = c || p == "C" || p == "H"
				sv = sv || p == "S"
			}
			if (o[0] == 'c' || o == "H") && c || (o[0] == 's' || o == "S") && sv {
				continue
			}
			if o == "C" && len(h) > 0 && h[len(h)-1] == "C" {
				continue
			}
			cc := false
			for _, p := range h {
				cc = cc || p == "C"
			}
			if o == "C" && cc {
				continue
			}
			rec(append(h, o))
		}
	}
	rec(nil)
	// TCP server unreachable
	out = append(out, c16Scenario([]string{"c:10"}, false, 1), c16Scenario([]string{"c:10", "C"}, false, 1), c16Scenario([]string{}, false, 1))
	return out
}

func main() {
	flag.Parse()
	vx.Main(&vx.Harness{Property: *prop, Name: "bridge-" + strings.ToLower(*prop), Scenarios: func(tier string) []vx.Scenario {
		if *prop == "C16" {
			return c16Scenarios(tier == "thorough")
		}
		return c15Scenarios(tier == "thorough")
	}})
}
