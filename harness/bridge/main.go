// Harness bridge: tcp-bridge-frontend's main() and connection.Handler joined in
// one process through the in-memory TCP (vnet) and websocket (vws) fakes; the
// TCP client and the TCP server are harness threads.
//
//	-prop C15: write/read plans in both directions, 1-2 connections; FIFO byte-queue reference
//	-prop C16: close/data histories; quiescence oracle (peer sees EOF after all data; nothing left open or parked)
package main

import (
	"bytes"
	"context"
	"flag"
	"fmt"
	"io"
	"net"
	"net/http"
	"strings"
	"time"
	"unsafe"

	"github.com/google/inverting-proxy/utils/tcpbridge/connection"
	vfrontend "github.com/google/inverting-proxy/zz_verif/p/vtcpbridgefrontend"
	"github.com/google/inverting-proxy/zz_verif/venv"
	"github.com/google/inverting-proxy/zz_verif/vh"
	"github.com/google/inverting-proxy/zz_verif/vnet"
	"github.com/google/inverting-proxy/zz_verif/vs"
	"github.com/google/inverting-proxy/zz_verif/vtime"
	"github.com/google/inverting-proxy/zz_verif/vws"
	"github.com/google/inverting-proxy/zz_verif/vx"
)

var prop = flag.String("prop", "C15", "C15|C16")

func pattern(conn, dir, n int) []byte {
	b := make([]byte, n)
	for i := range b {
		b[i] = byte((i*7 + conn*31 + dir*101 + i/251) % 256)
	}
	return b
}

type world struct {
	s           *vs.Sched
	net         *vnet.World
	ws          *vws.World
	passthrough int
	serverConns []net.Conn
	serverL     net.Listener
}

func setup(s *vs.Sched, serverUp bool) *world {
	w := &world{s: s}
	venv.Reset()
	w.net = vnet.W()
	w.ws = vws.W()
	pass := http.HandlerFunc(func(rw http.ResponseWriter, r *http.Request) { w.passthrough++; rw.WriteHeader(204) })
	w.ws.Handlers["bridge.test:9000"] = connection.Handler(7000, pass)
	if serverUp {
		l, err := vnet.Listen("tcp", "localhost:7000")
		if err != nil {
			panic(err)
		}
		w.serverL = l
	}
	vh.SetArgs("tcp-bridge-frontend", "--frontend-port=8080", "--backend=ws://bridge.test:9000/")
	vfrontend.ResetForTest()
	s.DaemonThread("frontend", func() { vfrontend.Main() })
	return w
}

// dialFrontend waits for the frontend's listener and connects.
func (w *world) dialFrontend() net.Conn {
	for i := 0; i < 50; i++ {
		c, err := vnet.Dial("tcp", "localhost:8080")
		if err == nil {
			return c
		}
		vs.Quiesce()
	}
	panic("frontend never listened")
}

func readAll(c net.Conn, bufSize int, into *[]byte, eof *string) {
	buf := make([]byte, bufSize)
	for {
		n, err := c.Read(buf)
		*into = append(*into, buf[:n]...)
		if err != nil {
			if err == io.EOF {
				*eof = "EOF"
			} else {
				*eof = "ERR:" + err.Error()
			}
			return
		}
	}
}

func base(r *vs.Result, x *vx.Exec) {
	for _, p := range r.Panics {
		x.Violations = append(x.Violations, "PANIC: "+p)
	}
	if r.Exited {
		x.Violations = append(x.Violations, fmt.Sprintf("EXIT: the frontend exited (code %d): %v", r.ExitCode, venv.Hooks.FatalLog))
	}
	for _, rc := range r.Races {
		x.Violations = append(x.Violations, fmt.Sprintf("RACE: unsynchronised concurrent use of %s by %s and %s (gorilla/websocket allows one concurrent writer and one concurrent reader per connection; it panics on a second writer)", rc.Object, rc.A, rc.B))
	}
}

// ---------------- C15 ----------------

type plan struct {
	up, down []int // write sizes client->server, server->client
	rbuf     int   // reader buffer size at both ends
	// half: the client half-closes (CloseWrite) after its last write and the server only
	// answers once it has read everything the client sent (request/response over one connection)
	half bool
	// pause: virtual time the client lets pass between its writes (idle connection)
	pause time.Duration
}

func c15Scenario(name string, plans []plan, pb int) vx.Scenario {
	// the streams are schedule-independent when the property holds; schedules are explored
	// (delay-bounded) on the small plans, the large ones run on the default schedule
	big, nbytes := 0, 0
	for _, p := range plans {
		for _, n := range append(append([]int{}, p.up...), p.down...) {
			big += n / p.rbuf
			nbytes += n
		}
	}
	if nbytes > 40000 {
		// every byte passes the per-byte copy loop of WebsocketNetConn.Read, whose memory accesses are
		// all announced: the large plans run on the default schedule, the small ones carry the schedules
		big = 1 << 20
	}
	return vx.Scenario{Name: name, PB: pb + 1, Delay: true, Single: big > 300, MaxSteps: 400000, MaxTime: 20 * time.Minute,
		Setup: func(s *vs.Sched) func(*vs.Result) vx.Exec {
			w := setup(s, true)
			n := len(plans)
			gotUp := make([][]byte, n) // what the server read from connection i
			gotDown := make([][]byte, n)
			eofUp := make([]string, n)
			eofDown := make([]string, n)
			sentUp := make([][]byte, n)
			sentDown := make([][]byte, n)
			// the TCP server: identifies the connection by its first byte
			s.DaemonThread("server-accept", func() {
				for {
					c, err := w.serverL.Accept()
					if err != nil {
						return
					}
					vs.Go(func() {
						hdr := make([]byte, 1)
						if _, err := io.ReadFull(c, hdr); err != nil {
							return
						}
						i := int(hdr[0])
						p := plans[i]
						vs.Go(func() {
							if p.half {
								want := 0
								for _, n := range p.up {
									want += n
								}
								vs.Wait("server: whole request read", nil, func() bool { return len(gotUp[i]) >= want })
							}
							for k, sz := range p.down {
								d := pattern(i, 1, sz+k)[:sz]
								sentDown[i] = append(sentDown[i], d...)
								c.Write(d)
							}
						})
						readAll(c, p.rbuf, &gotUp[i], &eofUp[i])
					})
				}
			})
			for i := range plans {
				i := i
				p := plans[i]
				s.Thread(fmt.Sprintf("client%d", i), func() {
					c := w.dialFrontend()
					c.Write([]byte{byte(i)})
					vs.Go(func() { readAll(c, p.rbuf, &gotDown[i], &eofDown[i]) })
					for k, sz := range p.up {
						if k > 0 && p.pause > 0 {
							vtime.Sleep(p.pause)
						}
						d := pattern(i, 0, sz+k)[:sz]
						sentUp[i] = append(sentUp[i], d...)
						c.Write(d)
					}
					if p.half {
						c.(*vnet.Conn).CloseWrite()
					}
				})
			}
			return func(r *vs.Result) vx.Exec {
				var x vx.Exec
				base(r, &x)
				var obs []string
				for i := range plans {
					obs = append(obs, fmt.Sprintf("c%d up %d/%d down %d/%d", i, len(gotUp[i]), len(sentUp[i]), len(gotDown[i]), len(sentDown[i])))
					if !bytes.Equal(gotUp[i], sentUp[i]) {
						x.Violations = append(x.Violations, fmt.Sprintf("UPSTREAM: connection %d: server read %d bytes, client wrote %d; first difference at %d (plan %+v)", i, len(gotUp[i]), len(sentUp[i]), firstDiff(gotUp[i], sentUp[i]), plans[i]))
					}
					if !bytes.Equal(gotDown[i], sentDown[i]) {
						x.Violations = append(x.Violations, fmt.Sprintf("DOWNSTREAM: connection %d: client read %d bytes, server wrote %d; first difference at %d (plan %+v)", i, len(gotDown[i]), len(sentDown[i]), firstDiff(gotDown[i], sentDown[i]), plans[i]))
					}
				}
				x.Obs = strings.Join(obs, "; ")
				return x
			}
		}}
}

func firstDiff(a, b []byte) int {
	n := len(a)
	if len(b) < n {
		n = len(b)
	}
	for i := 0; i < n; i++ {
		if a[i] != b[i] {
			return i
		}
	}
	return n
}

// c15Direct drives the exported DialWebsocket connection with small read buffers.
func c15Direct(name string, msgs []int, rbuf int, writeBetween int) vx.Scenario {
	return vx.Scenario{Name: name, PB: 1, MaxSteps: 50000,
		Setup: func(s *vs.Sched) func(*vs.Result) vx.Exec {
			venv.Reset()
			cl, srv := vws.Pair("a", "b")
			ca := &connection.WebsocketNetConn{Conn: cl}
			cb := &connection.WebsocketNetConn{Conn: srv}
			var sent, got, backSent, backGot []byte
			s.Thread("writer", func() {
				for k, n := range msgs {
					d := pattern(0, 0, n+k)[:n]
					sent = append(sent, d...)
					cb.Write(d)
				}
			})
			s.Thread("reader", func() {
				buf := make([]byte, rbuf)
				reads := 0
				total := 0
				for _, n := range msgs {
					total += n
				}
				for len(got) < total {
					n, err := ca.Read(buf)
					got = append(got, buf[:n]...)
					reads++
					if writeBetween > 0 && reads%2 == 1 {
						d := pattern(0, 1, writeBetween)
						backSent = append(backSent, d...)
						ca.Write(d)
					}
					if err != nil {
						return
					}
				}
			})
			s.DaemonThread("backreader", func() {
				var e string
				readAll(cb, 64, &backGot, &e)
			})
			return func(r *vs.Result) vx.Exec {
				var x vx.Exec
				base(r, &x)
				if !bytes.Equal(got, sent) {
					x.Violations = append(x.Violations, fmt.Sprintf("PARTIALREAD: reader with a %d-byte buffer got %d bytes, %d were written; first difference at %d (messages %v, %d-byte writes in between)", rbuf, len(got), len(sent), firstDiff(got, sent), msgs, writeBetween))
				}
				if !bytes.Equal(backGot, backSent) {
					x.Violations = append(x.Violations, fmt.Sprintf("PARTIALREAD: reverse direction got %d of %d bytes", len(backGot), len(backSent)))
				}
				x.Obs = fmt.Sprintf("%d/%d back %d/%d", len(got), len(sent), len(backGot), len(backSent))
				return x
			}
		}}
}

func c15Scenarios(th bool) []vx.Scenario {
	sizes := []int{0, 1, 2, 1024, 1025, 32768, 32769, 70000}
	bufs := []int{1, 7, 4096, 65536}
	var out []vx.Scenario
	// single connection: all plans of <=2 writes per direction (quick: one direction varied at a time)
	for _, rb := range bufs {
		for _, a := range sizes {
			for _, b := range sizes {
				if rb == 1 && (a > 2000 || b > 2000) {
					continue // 1-byte reads of 70 kB: covered by the 7-byte buffer
				}
				if !th && (a+b)%3 == 1 {
					continue
				}
				pb := 0
				if a+b <= 4 || (a == 1024 && b == 1) {
					pb = 1
				}
				out = append(out, c15Scenario(fmt.Sprintf("c15/one/rbuf%d/up[%d %d]/down[%d]", rb, a, b, b), []plan{{up: []int{a, b}, down: []int{b}, rbuf: rb}}, pb))
				if th {
					out = append(out, c15Scenario(fmt.Sprintf("c15/one/rbuf%d/up[%d]/down[%d %d %d]", rb, a, b, a, 1), []plan{{up: []int{a}, down: []int{b, a, 1}, rbuf: rb}}, 0))
				}
			}
		}
	}
	// two concurrent connections
	for _, a := range []int{1, 1025, 32769} {
		for _, b := range []int{2, 1024} {
			pb := 0
			if a == 1 {
				pb = 1
			}
			out = append(out, c15Scenario(fmt.Sprintf("c15/two/[%d]x[%d]", a, b), []plan{{up: []int{a, 3}, down: []int{b}, rbuf: 4096}, {up: []int{b}, down: []int{a, 5}, rbuf: 7}}, pb))
		}
	}
	// request/response over one connection: the client half-closes after its request
	for _, up := range []int{1, 1025, 70000} {
		for _, down := range []int{1, 1025, 70000} {
			pb := 0
			if up+down < 3000 {
				pb = 1
			}
			out = append(out, c15Scenario(fmt.Sprintf("c15/half-close/up[%d]/down[%d 3]", up, down), []plan{{up: []int{up}, down: []int{down, 3}, rbuf: 4096, half: true}}, pb))
		}
	}
	// connections that stay idle for a while between writes (timers of the bridge, if any, fire)
	for _, d := range []time.Duration{11 * time.Second, 31 * time.Second, 5 * time.Minute} {
		out = append(out, c15Scenario(fmt.Sprintf("c15/idle-%v/up[10 10 10]/down[10]", d), []plan{{up: []int{10, 10, 10}, down: []int{10}, rbuf: 4096, pause: d}}, 0))
	}
	// partially consumed messages on the exported connection type
	for _, rb := range []int{1, 3, 7, 100} {
		for _, wb := range []int{0, 1, 5, 200} {
			out = append(out, c15Direct(fmt.Sprintf("c15/direct/rbuf%d/write%d", rb, wb), []int{10, 1, 33, 0, 257}, rb, wb))
		}
	}
	return out
}

// ---------------- C16 ----------------

// history operations, executed in order by a driver; each followed by quiescence
// c:N client writes N bytes, s:N server writes N bytes, C client closes, S server closes
func c16Scenario(hist []string, serverUp bool, pb int) vx.Scenario {
	name := fmt.Sprintf("c16/%v/server=%v", hist, serverUp)
	return vx.Scenario{Name: name, PB: pb + 1, Delay: true, MaxSteps: 50000, MaxTime: 5 * time.Minute,
		Setup: func(s *vs.Sched) func(*vs.Result) vx.Exec {
			w := setup(s, serverUp)
			var srvConn net.Conn
			var gotUp, gotDown, sentUp, sentDown []byte
			var eofUp, eofDown string
			clientClosed, serverClosed, clientHalf := false, false, false
			// writes made toward an end after it closed: the unchanged bridge only notices a close
			// when a later write toward the closed end fails (the second one does)
			towardClient, towardServer := 0, 0
			if serverUp {
				s.DaemonThread("server", func() {
					c, err := w.serverL.Accept()
					if err != nil {
						return
					}
					vs.Touch(unsafe.Pointer(w))
					srvConn = c
					readAll(c, 4096, &gotUp, &eofUp)
				})
			}
			s.Thread("driver", func() {
				c := w.dialFrontend()
				vs.Go(func() { readAll(c, 4096, &gotDown, &eofDown) })
				vs.Quiesce()
				for _, op := range hist {
					switch op[0] {
					case 'c':
						var n int
						fmt.Sscanf(op[2:], "%d", &n)
						d := pattern(0, 0, n)
						if _, err := c.Write(d); err == nil {
							sentUp = append(sentUp, d...)
						}
						if serverClosed {
							towardServer++
						}
					case 's':
						var n int
						fmt.Sscanf(op[2:], "%d", &n)
						if srvConn != nil {
							d := pattern(0, 1, n)
							if _, err := srvConn.Write(d); err == nil {
								sentDown = append(sentDown, d...)
							}
							if clientClosed {
								towardClient++
							}
						}
					case 'T':
						// time passes on the open connection
						vtime.Sleep(31 * time.Second)
					case 'H':
						// half-close: the client is done sending but still reads
						c.(*vnet.Conn).CloseWrite()
						clientHalf = true
					case 'C':
						c.Close()
						clientClosed = true
					case 'S':
						if srvConn != nil {
							srvConn.Close()
							serverClosed = true
						}
					}
					vs.Quiesce()
				}
			})
			return func(r *vs.Result) vx.Exec {
				var x vx.Exec
				base(r, &x)
				h := strings.Join(hist, " ")
				// data written before a close must arrive, whatever else happens
				if serverUp && !serverClosed && !bytes.Equal(gotUp, sentUp) {
					x.Violations = append(x.Violations, fmt.Sprintf("DATALOSS: server read %d of the %d bytes the client wrote before closing (history %s)", len(gotUp), len(sentUp), h))
				}
				if !clientClosed && !bytes.Equal(gotDown, sentDown) {
					x.Violations = append(x.Violations, fmt.Sprintf("DATALOSS: client read %d of the %d bytes the server wrote before closing (history %s)", len(gotDown), len(sentDown), h))
				}
				// "idle": fewer than two writes were made toward the closed end afterwards (the recorded
				// finding: the bridge never propagates a close by itself); "after-traffic": the bridge had
				// failing writes to learn from and still did not propagate
				kind := func(n int) string {
					if n >= 2 {
						return fmt.Sprintf("after-traffic, %d writes toward the closed end", n)
					}
					return "idle"
				}
				if (clientClosed || clientHalf) && serverUp && !serverClosed && srvConn != nil && eofUp == "" {
					x.Violations = append(x.Violations, fmt.Sprintf("NOEOF-SERVER(%s): the client closed but the server never observed end-of-stream (history %s); parked: %s", kind(towardClient), h, parked(r)))
				}
				if serverClosed && !clientClosed && eofDown == "" {
					x.Violations = append(x.Violations, fmt.Sprintf("NOEOF-CLIENT(%s): the server closed but the client never observed end-of-stream (history %s); parked: %s", kind(towardServer), h, parked(r)))
				}
				if !serverUp && eofDown == "" && !clientClosed {
					x.Violations = append(x.Violations, fmt.Sprintf("NOEOF-CLIENT(idle): the TCP server is unreachable but the client connection was not closed (history %s)", h))
				}
				bridgeParked := 0
				for _, b := range r.Blocked {
					if strings.HasPrefix(b.Thread, "frontend/") || strings.HasPrefix(b.Thread, "driver/") && strings.Contains(b.Thread, "vws") {
						bridgeParked++
					}
				}
				if (clientClosed && (serverClosed || !serverUp)) && (openBridgeConns(w) > 0 || bridgeThreadsParked(r) > 0) {
					x.Violations = append(x.Violations, fmt.Sprintf("OUTLIVES(%s): both endpoints are gone but the bridge still holds %d connections and %d of its goroutines are parked (history %s): %s", kind(towardClient+towardServer), openBridgeConns(w), bridgeThreadsParked(r), h, parked(r)))
				}
				x.Obs = fmt.Sprintf("up %d/%d %s down %d/%d %s open=%d parked=%d", len(gotUp), len(sentUp), eofUp, len(gotDown), len(sentDown), eofDown, openBridgeConns(w), bridgeThreadsParked(r))
				return x
			}
		}}
}

// c16Pair: two bridged connections at the same time. Connection A is closed by its client and the
// server keeps writing to it (so that the bridge learns of the close from failing writes), while
// connection B stays open and idle; A's close must reach the server although B is still there, B must
// keep working, and each client only ever reads its own connection's bytes.
func c16Pair(concurrentDial bool, closer string, pb int) vx.Scenario {
	name := fmt.Sprintf("c16/pair/concurrent-dial=%v/%s-closes-A", concurrentDial, closer)
	return vx.Scenario{Name: name, PB: pb + 1, Delay: true, MaxSteps: 100000, MaxTime: time.Minute,
		Setup: func(s *vs.Sched) func(*vs.Result) vx.Exec {
			w := setup(s, true)
			srv := make([]net.Conn, 2)
			gotUp := make([][]byte, 2)
			gotDown := make([][]byte, 2)
			eofUp := make([]string, 2)
			eofDown := make([]string, 2)
			sentDown := make([][]byte, 2)
			sentUp := make([][]byte, 2)
			cl := make([]net.Conn, 2)
			s.DaemonThread("server-accept", func() {
				for {
					c, err := w.serverL.Accept()
					if err != nil {
						return
					}
					vs.Go(func() {
						hdr := make([]byte, 1)
						if _, err := io.ReadFull(c, hdr); err != nil {
							return
						}
						i := int(hdr[0])
						vs.Touch(unsafe.Pointer(w))
						srv[i] = c
						readAll(c, 4096, &gotUp[i], &eofUp[i])
					})
				}
			})
			connect := func(i int) {
				c := w.dialFrontend()
				c.Write([]byte{byte(i)})
				vs.Touch(unsafe.Pointer(w))
				cl[i] = c
				vs.Go(func() { readAll(c, 4096, &gotDown[i], &eofDown[i]) })
			}
			if concurrentDial {
				s.Thread("client1", func() { connect(1) })
			}
			s.Thread("driver", func() {
				connect(0)
				if !concurrentDial {
					connect(1)
				}
				vs.Wait("both connections bridged", unsafe.Pointer(w), func() bool { return srv[0] != nil && srv[1] != nil && cl[1] != nil })
				vs.Quiesce()
				sw := func(i, n int) {
					d := pattern(i, 1, n)
					if _, err := srv[i].Write(d); err == nil {
						sentDown[i] = append(sentDown[i], d...)
					}
					vs.Quiesce()
				}
				cw := func(i, n int) {
					d := pattern(i, 0, n)
					if _, err := cl[i].Write(d); err == nil {
						sentUp[i] = append(sentUp[i], d...)
					}
					vs.Quiesce()
				}
				// both carry data first
				sw(0, 10)
				sw(1, 20)
				cw(0, 5)
				cw(1, 6)
				switch closer {
				case "client":
					cl[0].Close()
					vs.Quiesce()
					for k := 0; k < 3; k++ {
						d := pattern(0, 1, 10)
						srv[0].Write(d)
						vs.Quiesce()
					}
				case "server":
					srv[0].Close()
					vs.Quiesce()
					for k := 0; k < 3; k++ {
						cl[0].Write(pattern(0, 0, 10))
						vs.Quiesce()
					}
				}
				// B still works
				sw(1, 7)
				cw(1, 8)
			})
			return func(r *vs.Result) vx.Exec {
				var x vx.Exec
				base(r, &x)
				if len(x.Violations) > 0 {
					return x
				}
				if cl[1] == nil || srv[0] == nil || srv[1] == nil {
					x.Violations = append(x.Violations, fmt.Sprintf("NOTBRIDGED: the two connections were not both bridged to the server; parked: %s", parked(r)))
					return x
				}
				for i := 0; i < 2; i++ {
					gd, gu := gotDown[i], gotUp[i]
					if i == 0 && closer == "client" {
						// A's client stopped reading when it closed
						if len(gd) > len(sentDown[0]) || !bytes.Equal(gd, sentDown[0][:len(gd)]) {
							x.Violations = append(x.Violations, fmt.Sprintf("CROSSED: client A read bytes the server never wrote to connection A (%d bytes)", len(gd)))
						}
					} else if !bytes.Equal(gd, sentDown[i]) {
						x.Violations = append(x.Violations, fmt.Sprintf("DATALOSS: client %c read %d of the %d bytes the server wrote to its connection (first difference at %d)", 'A'+i, len(gd), len(sentDown[i]), firstDiff(gd, sentDown[i])))
					}
					if i == 0 && closer == "server" {
						if len(gu) > len(sentUp[0]) || !bytes.Equal(gu, sentUp[0][:len(gu)]) {
							x.Violations = append(x.Violations, "CROSSED: the server read bytes on connection A that client A never wrote")
						}
					} else if !bytes.Equal(gu, sentUp[i]) {
						x.Violations = append(x.Violations, fmt.Sprintf("DATALOSS: the server read %d of the %d bytes client %c wrote (first difference at %d)", len(gu), len(sentUp[i]), 'A'+i, firstDiff(gu, sentUp[i])))
					}
				}
				if closer == "client" && eofUp[0] == "" {
					x.Violations = append(x.Violations, fmt.Sprintf("NOEOF-SERVER(after-traffic, 3 writes toward the closed end): client A closed and the server wrote to it three more times, but the server never observed the end of connection A while connection B is open; parked: %s", parked(r)))
				}
				if closer == "server" && eofDown[0] == "" {
					x.Violations = append(x.Violations, fmt.Sprintf("NOEOF-CLIENT(after-traffic, 3 writes toward the closed end): the server closed connection A and client A wrote three more times, but client A never observed end-of-stream while connection B is open; parked: %s", parked(r)))
				}
				if eofUp[1] != "" || eofDown[1] != "" {
					x.Violations = append(x.Violations, fmt.Sprintf("COLLATERAL: connection B was ended (%q/%q) by the close of connection A", eofUp[1], eofDown[1]))
				}
				x.Obs = fmt.Sprintf("A up %d down %d eof %q/%q; B up %d down %d eof %q/%q", len(gotUp[0]), len(gotDown[0]), eofUp[0], eofDown[0], len(gotUp[1]), len(gotDown[1]), eofUp[1], eofDown[1])
				return x
			}
		}}
}

// c16Refused: websocket handshakes for the bridge path that the backend refuses (an offered extension, an
// old protocol version) or that pass, next to one ordinary bridged connection: a refused handshake must
// not leave a connection to the TCP server behind.
func c16Refused(kind string) vx.Scenario {
	return vx.Scenario{Name: "c16/refused-handshake/" + kind, PB: 1, Delay: true, MaxSteps: 50000, MaxTime: time.Minute,
		Setup: func(s *vs.Sched) func(*vs.Result) vx.Exec {
			w := setup(s, true)
			accepted := 0
			var conns []net.Conn
			s.DaemonThread("server-accept", func() {
				for {
					c, err := w.serverL.Accept()
					if err != nil {
						return
					}
					vs.Touch(unsafe.Pointer(w))
					accepted++
					conns = append(conns, c)
				}
			})
			serverOpenAtEnd := -1
			s.Thread("driver", func() {
				h := w.ws.Handlers["bridge.test:9000"]
				extra := http.Header{}
				switch kind {
				case "extension-offered":
					extra["Sec-Websocket-Extensions"] = []string{"permessage-deflate; client_max_window_bits"}
				case "old-version":
					extra["Sec-Websocket-Version"] = []string{"8"}
				}
				for i := 0; i < 2; i++ {
					req, _ := vws.Handshake(context.Background(), "ws://bridge.test:9000"+connection.StreamingPath, extra)
					h.ServeHTTP(vws.NullResponseWriter(), req)
					vs.Quiesce()
				}
				// looked at now: the tear-down of the execution closes everything
				open := 0
				for _, c := range w.net.Conns {
					if !c.Closed() && strings.HasSuffix(c.Name, "->localhost:7000") {
						open++
					}
				}
				serverOpenAtEnd = open
			})
			return func(r *vs.Result) vx.Exec {
				var x vx.Exec
				base(r, &x)
				x.Obs = fmt.Sprintf("%s: server accepted %d, bridge still holds %d", kind, accepted, serverOpenAtEnd)
				if serverOpenAtEnd > 0 {
					x.Violations = append(x.Violations, fmt.Sprintf("ORPHANED: after two refused handshakes (%s) the bridge still holds %d connections to the TCP server, which nobody is bridged to", kind, serverOpenAtEnd))
				}
				return x
			}
		}}
}

// openBridgeConns counts connection ends the bridge itself opened and has not closed.
func openBridgeConns(w *world) int {
	n := 0
	for _, c := range w.ws.Conns {
		if !c.Closed() {
			n++
		}
	}
	for _, c := range w.net.Conns {
		// ends owned by the bridge: the accepted side of :8080 and the dialling side to :7000
		if !c.Closed() && (strings.HasPrefix(c.Name, "localhost:8080->") || strings.HasSuffix(c.Name, "->localhost:7000")) {
			n++
		}
	}
	return n
}

func bridgeThreadsParked(r *vs.Result) int {
	n := 0
	for _, b := range r.Blocked {
		if b.Thread == "frontend" {
			continue // the accept loop
		}
		if strings.HasPrefix(b.Thread, "frontend/") || strings.Contains(b.Thread, "@vws.go") {
			n++
		}
	}
	return n
}

func parked(r *vs.Result) string {
	var p []string
	for _, b := range r.Blocked {
		if !b.Daemon || strings.HasPrefix(b.Thread, "frontend/") {
			p = append(p, b.Thread+" in "+b.Op)
		}
	}
	return strings.Join(p, "; ")
}

func c16Scenarios(th bool) []vx.Scenario {
	ops := []string{"c:10", "s:10", "C", "S", "H", "c:40000"}
	depth := 3
	if th {
		depth = 4
	}
	var out []vx.Scenario
	var rec func(h []string)
	rec = func(h []string) {
		if len(h) > 0 {
			hasClose := false
			for _, o := range h {
				if o == "C" || o == "S" || o == "H" {
					hasClose = true
				}
			}
			if hasClose {
				pb := 0
				if len(h) <= 2 {
					pb = 2
				} else if len(h) == 3 && th {
					pb = 1
				}
				out = append(out, c16Scenario(append([]string{}, h...), true, pb))
			}
		}
		if len(h) == depth {
			return
		}
		for _, o := range ops {
			// nothing can follow both closes; a closed side cannot write
			c, sv := false, false
			for _, p := range h {
				c = c || p == "C" || p == "H"
				sv = sv || p == "S"
			}
			if (o[0] == 'c' || o == "H") && c || (o[0] == 's' || o == "S") && sv {
				continue
			}
			if o == "C" && len(h) > 0 && h[len(h)-1] == "C" {
				continue
			}
			cc := false
			for _, p := range h {
				cc = cc || p == "C"
			}
			if o == "C" && cc {
				continue
			}
			rec(append(h, o))
		}
	}
	rec(nil)
	// connections that live for a while: data sent after 31 s must still arrive, closes still count
	for _, h := range [][]string{{"T", "s:10", "S", "c:10", "c:10"}, {"c:10", "T", "s:10", "c:10"}, {"T", "c:40000", "s:10"}, {"s:10", "T", "C", "s:10", "s:10"}} {
		out = append(out, c16Scenario(h, true, 0))
	}
	out = append(out, c16Refused("extension-offered"), c16Refused("old-version"))
	// two connections at once
	for _, cd := range []bool{false, true} {
		for _, cl := range []string{"client", "server"} {
			pb := 0
			if cd {
				pb = 1
			}
			out = append(out, c16Pair(cd, cl, pb))
		}
	}
	// TCP server unreachable
	out = append(out, c16Scenario([]string{"c:10"}, false, 1), c16Scenario([]string{"c:10", "C"}, false, 1), c16Scenario([]string{}, false, 1))
	return out
}

func main() {
	flag.Parse()
	vx.Main(&vx.Harness{Property: *prop, Name: "bridge-" + strings.ToLower(*prop), Scenarios: func(tier string) []vx.Scenario {
		if *prop == "C16" {
			return c16Scenarios(tier == "thorough")
		}
		return c15Scenarios(tier == "thorough")
	}})
}
