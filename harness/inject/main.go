// Harness inject (C14): the banner handler and the shim-script ModifyResponse
// hook, behind a real httputil.ReverseProxy with a scripted transport, on the
// full product of request shapes x backend responses x body layouts x read
// segmentations x configurations. Differential oracle against the same
// response relayed by a plain reverse proxy.
package main

import (
	"bufio"
	"context"
	"fmt"
	"io"
	"net/http"
	"net/http/httptest"
	"net/http/httptrace"
	"net/http/httputil"
	"net/textproto"
	"net/url"
	"strings"

	"github.com/google/inverting-proxy/agent/banner"
	"github.com/google/inverting-proxy/agent/websockets"
	"github.com/google/inverting-proxy/zz_verif/vx"
)

var (
	methods  = []string{"GET", "POST", "HEAD"}
	accepts  = []string{"", "text/html", "*/*", "application/json", "text/html;q=0.9, */*"}
	framings = [][2]string{{"", ""}, {"Sec-Fetch-Dest", "iframe"}, {"Sec-Fetch-Mode", "nested-navigate"}, {"Referer", "http://client.example/doc?x=1"}, {"Referer", "http://client.example/doc?page=2"}, {"Referer", "http://client.example/other"}, {"Referer", "http://evil.example/doc"}, {"Referer", "://bad"}}
	statuses = []int{200, 201, 204, 206, 304, 404, 500}
	ctypes   = [][]string{nil, {"text/html"}, {"text/html; charset=utf-8"}, {"application/xhtml+xml"}, {"TEXT/HTML"}, {"text/plain"}, {"application/json"}, {"text/plain", "text/html"}}
	cdisps   = []string{"", "inline", "attachment; filename=x.html"}
	configs  = []string{"banner", "shim", "both"}
)

type bodyKind struct {
	name string
	data string
}

func pad(n int) string { return strings.Repeat("x", n) }

var bodies = []bodyKind{
	{"empty", ""},
	{"nohead", "<html><body>" + pad(40) + "</body></html>"},
	{"head0", "<head><title>t</title></head><body>b</body>"},
	{"head100", pad(100) + "<head>" + pad(30)},
	{"head1017", pad(1017) + "<head>" + pad(30)},
	{"head1018", pad(1018) + "<head>" + pad(30)},
	{"head1020", pad(1020) + "<head>" + pad(30)},
	{"head1024", pad(1024) + "<head>" + pad(30)},
	{"twoheads", "<html><head>a</head>" + pad(10) + "<head>b</head>"},
	{"HEADupper", "<html><HEAD>a</HEAD>"},
	{"big", pad(2000) + "<head>" + pad(3000)},
}

var segs = []string{"whole", "bytes", "splitinside", "splitbefore", "splitafter"}

// segReader hands the body out in the scripted pieces.
type segReader struct{ pieces []string }

func (s *segReader) Read(p []byte) (int, error) {
	for len(s.pieces) > 0 && s.pieces[0] == "" {
		s.pieces = s.pieces[1:]
	}
	if len(s.pieces) == 0 {
		return 0, io.EOF
	}
	n := copy(p, s.pieces[0])
	s.pieces[0] = s.pieces[0][n:]
	return n, nil
}
func (s *segReader) Close() error { return nil }

func segment(body, how string) []string {
	i := strings.Index(body, "<head>")
	switch how {
	case "bytes":
		var p []string
		for _, c := range []byte(body) {
			p = append(p, string(c))
		}
		return p
	case "splitinside":
		if i >= 0 {
			return []string{body[:i+3], body[i+3:]}
		}
	case "splitbefore":
		if i > 0 {
			return []string{body[:i], body[i:]}
		}
	case "splitafter":
		if i >= 0 {
			return []string{body[:i+6], body[i+6:]}
		}
	}
	return []string{body}
}

type backendRT struct {
	status int
	header http.Header
	pieces []string
	head   bool
	// interim: an informational response (103 Early Hints) precedes the final one
	interim bool
}

// skip1xx is a client-side view of a response: informational responses are not the answer.
type skip1xx struct{ *httptest.ResponseRecorder }

func (s skip1xx) WriteHeader(code int) {
	if code >= 100 && code < 200 && code != 101 {
		return
	}
	s.ResponseRecorder.WriteHeader(code)
}

func (b *backendRT) RoundTrip(r *http.Request) (*http.Response, error) {
	if b.interim {
		if tr := httptrace.ContextClientTrace(r.Context()); tr != nil && tr.Got1xxResponse != nil {
			tr.Got1xxResponse(103, textproto.MIMEHeader{"Link": {"</style.css>; rel=preload"}})
		}
	}
	h := b.header.Clone()
	resp := &http.Response{StatusCode: b.status, Status: fmt.Sprintf("%d X", b.status), Proto: "HTTP/1.1", ProtoMajor: 1, ProtoMinor: 1, Header: h, Request: r, ContentLength: -1}
	if r.Method == "HEAD" || b.status == 204 || b.status == 304 {
		resp.Body = http.NoBody
		resp.ContentLength = 0
	} else {
		resp.Body = &segReader{pieces: append([]string{}, b.pieces...)}
	}
	return resp, nil
}

var shimCode string

func initShim(string) {
	f, err := websockets.ShimBody("shim")
	if err != nil {
		panic(err)
	}
	resp := &http.Response{Header: http.Header{"Content-Type": {"text/html"}}, Body: io.NopCloser(strings.NewReader("<head>"))}
	f(resp)
	b, _ := io.ReadAll(resp.Body)
	shimCode = strings.TrimPrefix(string(b), "<head>")
	if !strings.Contains(shimCode, "WebSocket") {
		panic("could not derive the shim script")
	}
}

type dims struct{ m, a, f, s, ct, cd, b, sg, cfg int }

func dimsOf(tier string, i int) dims {
	var d dims
	next := func(n int) int { v := i % n; i /= n; return v }
	d.cfg = next(len(configs))
	d.sg = next(len(segs))
	d.b = next(len(bodies))
	d.cd = next(len(cdisps))
	d.ct = next(len(ctypes))
	d.s = next(len(statuses))
	d.f = next(len(framings))
	d.a = next(len(accepts))
	d.m = next(len(methods))
	return d
}

func fullTotal() int {
	return len(configs) * len(segs) * len(bodies) * len(cdisps) * len(ctypes) * len(statuses) * len(framings) * len(accepts) * len(methods)
}

// quick takes every 7th member of the product (7 is coprime to every dimension but the status and framing ones, which are 7: the stride is 11 instead).
const quickStride = 1

func total(tier string) int {
	if tier == "thorough" {
		return fullTotal()
	}
	return (fullTotal() + quickStride - 1) / quickStride
}

func index(tier string, i int) int {
	if tier == "thorough" {
		return i
	}
	return i * quickStride
}

func isHTMLDoc(h http.Header) bool {
	for _, ct := range h["Content-Type"] {
		mt := strings.ToLower(strings.TrimSpace(strings.SplitN(ct, ";", 2)[0]))
		if mt == "text/html" || mt == "application/xhtml+xml" {
			return true
		}
	}
	return false
}

func hdrString(h http.Header, skip ...string) string {
	c := h.Clone()
	for _, s := range skip {
		c.Del(s)
	}
	var sb strings.Builder
	keys := make([]string, 0, len(c))
	for k := range c {
		keys = append(keys, k)
	}
	for i := range keys {
		for j := i + 1; j < len(keys); j++ {
			if keys[j] < keys[i] {
				keys[i], keys[j] = keys[j], keys[i]
			}
		}
	}
	for _, k := range keys {
		fmt.Fprintf(&sb, "%s=%q;", k, c[k])
	}
	return sb.String()
}

func eval(tier string, n int) vx.Exec {
	d := dimsOf(tier, index(tier, n))
	var x vx.Exec
	body := bodies[d.b].data
	hdr := http.Header{"X-Backend": {"1"}, "Etag": {`"v1"`}}
	for _, ct := range ctypes[d.ct] {
		hdr.Add("Content-Type", ct)
	}
	if cdisps[d.cd] != "" {
		hdr.Set("Content-Disposition", cdisps[d.cd])
	}
	if d.b%2 == 1 {
		// a backend that compresses: the proxies never look inside, the label must stay with the bytes
		hdr.Set("Content-Encoding", "gzip")
		hdr.Set("Vary", "Accept-Encoding")
	}
	mk := func() *backendRT {
		return &backendRT{status: statuses[d.s], header: hdr, pieces: segment(body, segs[d.sg]), interim: d.b%3 == 2}
	}
	target, _ := url.Parse("http://backend.test")
	newReq := func() *http.Request {
		// the agent parses the forwarded request with http.ReadRequest: origin-form URL, Host separate
		raw := methods[d.m] + " /doc?x=1 HTTP/1.1\r\nHost: client.example\r\n"
		if accepts[d.a] != "" {
			raw += "Accept: " + accepts[d.a] + "\r\n"
		}
		if framings[d.f][0] != "" {
			raw += framings[d.f][0] + ": " + framings[d.f][1] + "\r\n"
		}
		r, err := http.ReadRequest(bufio.NewReader(strings.NewReader(raw + "\r\n")))
		if err != nil {
			panic(err)
		}
		return r
	}
	// baseline: plain reverse proxy
	plain := httputil.NewSingleHostReverseProxy(target)
	plain.Transport = mk()
	base := httptest.NewRecorder()
	plain.ServeHTTP(skip1xx{base}, newReq())
	// configured chain
	rp := httputil.NewSingleHostReverseProxy(target)
	rp.Transport = mk()
	var h http.Handler = rp
	cfg := configs[d.cfg]
	if cfg == "shim" || cfg == "both" {
		f, _ := websockets.ShimBody("shim")
		rp.ModifyResponse = f
	}
	if cfg == "banner" || cfg == "both" {
		var err error
		h, err = banner.Proxy(context.Background(), h, "<b>BANNER</b>", "40px", "", nil)
		if err != nil {
			panic(err)
		}
	}
	out := httptest.NewRecorder()
	h.ServeHTTP(skip1xx{out}, newReq())

	desc := fmt.Sprintf("%s %s accept=%q %v -> %d ct=%q cd=%q body=%s seg=%s", cfg, methods[d.m], accepts[d.a], framings[d.f], statuses[d.s], ctypes[d.ct], cdisps[d.cd], bodies[d.b].name, segs[d.sg])
	ob, bb := out.Body.String(), base.Body.String()
	bodyChanged := ob != bb
	hdrChanged := hdrString(out.Header(), "Date") != hdrString(base.Header(), "Date")
	statusChanged := out.Code != base.Code
	html := isHTMLDoc(hdr)
	framed := strings.Contains(ob, "inverting-proxy-frame") && !strings.Contains(bb, "inverting-proxy-frame")
	injected := strings.Contains(ob, "START_WEBSOCKET_SHIM")
	x.Nontrivial = bodyChanged || hdrChanged
	x.Obs = fmt.Sprintf("bodyChanged=%v hdrChanged=%v framed=%v injected=%v", bodyChanged, hdrChanged, framed, injected)
	if statusChanged {
		x.Violations = append(x.Violations, fmt.Sprintf("STATUS: status %d became %d: %s", base.Code, out.Code, desc))
	}
	if (bodyChanged || hdrChanged) && !html {
		x.Violations = append(x.Violations, fmt.Sprintf("NONHTML-ALTERED: a response that is not an HTML document was altered (body changed=%v, headers %q -> %q): %s", bodyChanged, hdrString(base.Header(), "Date"), hdrString(out.Header(), "Date"), desc))
		return x
	}
	bannerEligible := methods[d.m] == "GET" && strings.Contains(accepts[d.a], "text/html") && statuses[d.s] == 200 && !strings.Contains(cdisps[d.cd], "attachment") && html
	alreadyFramed := framings[d.f][0] == "Sec-Fetch-Dest" || framings[d.f][0] == "Sec-Fetch-Mode" || framings[d.f][1] == "http://client.example/doc?x=1" || framings[d.f][1] == "http://client.example/doc?page=2"
	if framed {
		if !bannerEligible {
			x.Violations = append(x.Violations, "BANNER-INELIGIBLE: the banner frame was served for a response that is not a 200, non-attachment HTML reply to a GET accepting text/html: "+desc)
		}
		if alreadyFramed {
			x.Violations = append(x.Violations, "BANNER-REFRAMED: an already framed request got the banner frame instead of the original body: "+desc)
		}
		if !strings.Contains(ob, `src="/doc?x=1"`) {
			x.Violations = append(x.Violations, "BANNER-URL: the banner frame does not embed the requested URL: "+desc)
		}
		cc := out.Header().Get("Cache-Control")
		if !strings.Contains(cc, "no-store") && !strings.Contains(cc, "no-cache") {
			x.Violations = append(x.Violations, "BANNER-CACHEABLE: the banner frame is not marked uncacheable: "+desc)
		}
		if strings.ToLower(out.Header().Get("X-Frame-Options")) != "sameorigin" {
			x.Violations = append(x.Violations, "BANNER-FRAMEOPTIONS: the banner frame is not marked same-origin-frameable: "+desc)
		}
		if !strings.Contains(ob, "<b>BANNER</b>") {
			x.Violations = append(x.Violations, "BANNER-MISSING: frame served without the banner: "+desc)
		}
		// second navigation to the same path with another query through the same handler
		if framed && d.sg == 0 {
			r2 := newReq()
			r2.URL.RawQuery = "x=2&y=3"
			rp.Transport = mk()
			out2 := httptest.NewRecorder()
			h.ServeHTTP(skip1xx{out2}, r2)
			if strings.Contains(out2.Body.String(), "inverting-proxy-frame") && !strings.Contains(out2.Body.String(), `src="/doc?x=2&y=3"`) {
				x.Violations = append(x.Violations, "BANNER-URL: a second navigation (/doc?x=2&y=3) got a frame that does not embed its own URL: "+desc)
			}
		}
		return x
	}
	if (cfg == "banner") && bodyChanged {
		x.Violations = append(x.Violations, "BODY-ALTERED: banner-only configuration changed a body without serving the frame: "+desc)
	}
	if bodyChanged {
		// must be exactly: original with the script once, right after the first <head>
		i := strings.Index(bb, "<head>")
		if i < 0 || ob != bb[:i+6]+shimCode+bb[i+6:] {
			x.Violations = append(x.Violations, fmt.Sprintf("SHIM-MANGLED: the body is not the original with the script inserted once immediately after the first <head> (original %d bytes, got %d, first <head> at %d): %s", len(bb), len(ob), i, desc))
		}
		if cfg == "banner" {
			return x
		}
	}
	if injected && strings.Count(ob, "START_WEBSOCKET_SHIM") != 1 {
		x.Violations = append(x.Violations, "SHIM-TWICE: the script was injected more than once: "+desc)
	}
	// two responses whose processing overlaps: hook(A), hook(B), then read A, then read B
	if cfg == "shim" && d.m == 0 && d.s == 0 && d.a == 0 && d.f == 0 {
		f, _ := websockets.ShimBody("shim")
		otherBody := "<html>" + strings.Repeat("B", 300) + "</html>"
		ra := &http.Response{StatusCode: 200, Header: hdr.Clone(), Body: &segReader{pieces: segment(body, segs[d.sg])}}
		rb := &http.Response{StatusCode: 200, Header: http.Header{"Content-Type": {"text/html"}}, Body: &segReader{pieces: []string{otherBody}}}
		f(ra)
		f(rb)
		ga, _ := io.ReadAll(ra.Body)
		gb, _ := io.ReadAll(rb.Body)
		okA := string(ga) == body
		if i := strings.Index(body, "<head>"); i >= 0 && string(ga) == body[:i+6]+shimCode+body[i+6:] {
			okA = true
		}
		if !okA || string(gb) != otherBody {
			x.Violations = append(x.Violations, fmt.Sprintf("SHIM-OVERLAP: two responses passed through the hook before either body was read; first body came out as %d bytes (original %d), second as %d (original %d): %s", len(ga), len(body), len(gb), len(otherBody), desc))
		}
	}
	if bannerEligible && alreadyFramed && (cfg == "banner") && bodyChanged {
		x.Violations = append(x.Violations, "FRAMED-BODY: an already framed request did not get the original body: "+desc)
	}
	if bannerEligible && alreadyFramed && (cfg == "banner" || cfg == "both") && !framed {
		// the original body passes: apart from the cache and frame-options fields every header must pass with it
		skip := []string{"Date", "Cache-Control", "Pragma", "Expires", "X-Frame-Options", "Content-Length"}
		if a, b := hdrString(out.Header(), skip...), hdrString(base.Header(), skip...); a != b {
			x.Violations = append(x.Violations, fmt.Sprintf("FRAMED-HEADERS: an already framed request got the original body but other headers: %q instead of %q: %s", a, b, desc))
		}
	}
	return x
}

func main() {
	vx.EnumMain(&vx.Enum{
		Property: "C14", Name: "inject", Init: initShim,
		Rule:  "cases = product of method x Accept x framing hints x status x Content-Type x Content-Disposition x body layout (<head> absent, at 0/100/1017..1024/2000, repeated, upper case) x read segmentation x configuration {banner, shim, both}; full product in both tiers; plus, per case, a second navigation with another query through the same banner handler and an overlapped pair of responses through the same shim hook; non-trivial = the configured chain altered body or headers relative to a plain reverse proxy",
		Total: total,
		Eval:  eval,
		Describe: func(tier string, i int) string {
			return fmt.Sprintf("case %d (%+v)", index(tier, i), dimsOf(tier, index(tier, i)))
		},
	})
}
