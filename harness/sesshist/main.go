// Harness sesshist (C10, histories): every sequence of requests up to a depth
// over an alphabet of (client, host, path, extra client cookies, backend
// Set-Cookie reply) is pushed through the real sessions handler; a reference
// model keeps one standards-compliant cookie jar per session. Sequential: the
// handler starts no goroutines, so the real code runs natively.
package main

import (
	"fmt"
	"net/http"
	"net/http/cookiejar"
	"net/http/httptest"
	"net/url"
	"strings"
	"time"

	"golang.org/x/net/publicsuffix"

	"github.com/google/inverting-proxy/agent/sessions"
	"github.com/google/inverting-proxy/zz_verif/vx"
)

const cookieName = "proxy-session"
const lifetime = 2 * time.Hour

type op struct {
	client int // 0,1: returning clients A,B (replay what they were given); 2: a fresh client each time
	host   string
	path   string
	extra  string // extra Cookie header content sent by the client itself
	reply  []string
}

var clients = []int{0, 1, 2}
var hosts = []string{"h1.example.com", "h2.example.com"}
var paths = []string{"/", "/p/x"}
var extras = []string{"", "own=1", "a=clientside"}
var replies = [][]string{
	nil,
	{"a=1"},
	{"a=2; Path=/"},
	{"a=; Max-Age=0"},
	{"b=1; Path=/p"},
	{"c=1; Domain=example.com"},
	{"d=1; Secure; HttpOnly"},
	{"e=1", "f=2; Path=/p/x"},
	{"a=gone; Expires=Thu, 01 Jan 1970 00:00:00 GMT"},
	// lines net/http's cookie parser rejects (browsers accept some of them): still the backend's, never the client's
	{"prefs[theme]=dark; Path=/"},
	{"=novalue", "bad name=1"},
	{"g=1", "h[1]=2"},
}

var alphabet []op

func init() { buildAlphabet(true) }

func buildAlphabet(thin bool) {
	alphabet = nil
	for _, c := range clients {
		for hi, h := range hosts {
			for _, p := range paths {
				for ei, e := range extras {
					for ri, r := range replies {
						// thin out: the second host and the cookie-name clash only with a few replies
						if thin && hi == 1 && ri > 2 && ri != 5 {
							continue
						}
						if thin && ei == 2 && ri != 1 && ri != 0 {
							continue
						}
						// the unparsable lines: first host, root path, no client cookies (thorough: everywhere)
						if thin && ri >= 9 && (hi == 1 || p != "/" || ei != 0) {
							continue
						}
						alphabet = append(alphabet, op{c, h, p, e, r})
					}
				}
			}
		}
	}
}

func depth(tier string) int { return 3 }

func pow(b, e int) int {
	r := 1
	for i := 0; i < e; i++ {
		r *= b
	}
	return r
}

// total: all sequences of exactly `depth` ops (shorter ones are prefixes), plus long deterministic runs
func total(tier string) int { return pow(len(alphabet), depth(tier)) + len(longRuns) }

var longRuns = [][]int{}

func init() { buildLongRuns() }

func buildLongRuns() {
	longRuns = nil
	// set, overwrite, scoped, delete, across two sessions and a fresh client, revisit everything
	find := func(c int, h, p, e string, ri int) int {
		for i, o := range alphabet {
			if o.client == c && o.host == h && o.path == p && o.extra == e && fmt.Sprint(o.reply) == fmt.Sprint(replies[ri]) {
				return i
			}
		}
		panic("no such op")
	}
	h1, h2 := hosts[0], hosts[1]
	longRuns = append(longRuns,
		[]int{find(0, h1, "/", "", 1), find(1, h1, "/", "", 2), find(0, h1, "/p/x", "", 4), find(1, h1, "/p/x", "own=1", 0), find(0, h1, "/", "", 3), find(0, h1, "/", "", 0), find(1, h1, "/", "", 0), find(2, h1, "/", "", 0)},
		[]int{find(0, h1, "/", "", 7), find(0, h1, "/p/x", "", 0), find(0, h1, "/", "", 0), find(0, h2, "/", "", 1), find(0, h2, "/", "", 0), find(0, h1, "/", "", 5), find(0, h2, "/p/x", "", 0), find(1, h2, "/", "", 0)},
		[]int{find(0, h1, "/", "", 6), find(0, h1, "/", "", 0), find(0, h1, "/", "", 8), find(0, h1, "/", "a=clientside", 1), find(0, h1, "/", "a=clientside", 0)},
	)
}

func seqOf(tier string, i int) []int {
	n := pow(len(alphabet), depth(tier))
	if i >= n {
		return longRuns[i-n]
	}
	d := depth(tier)
	s := make([]int, d)
	for k := d - 1; k >= 0; k-- {
		s[k] = i % len(alphabet)
		i /= len(alphabet)
	}
	return s
}

type clientState struct {
	cookie string // session cookie value the client holds ("" = none)
}

// skip1xx is a client-side view of a response: informational responses are not the answer.
type skip1xx struct{ *httptest.ResponseRecorder }

func (s skip1xx) WriteHeader(code int) {
	if code >= 100 && code < 200 && code != 101 {
		return
	}
	s.ResponseRecorder.WriteHeader(code)
}

func newJar() http.CookieJar {
	j, _ := cookiejar.New(&cookiejar.Options{PublicSuffixList: publicsuffix.List})
	return j
}

func eval(tier string, idx int) vx.Exec {
	seq := seqOf(tier, idx)
	var x vx.Exec
	cache := sessions.NewCache(cookieName, lifetime, 1000, false)
	var cur op
	var seen *http.Request
	backend := http.HandlerFunc(func(w http.ResponseWriter, r *http.Request) {
		seen = r.Clone(r.Context())
		if len(cur.reply)%2 == 1 {
			// an informational response first, as httputil.ReverseProxy passes it on (103 Early Hints)
			w.Header().Set("Link", "</style.css>; rel=preload")
			w.WriteHeader(103)
			w.Header().Del("Link")
		}
		for _, sc := range cur.reply {
			w.Header().Add("Set-Cookie", sc)
		}
		w.Header().Set("X-Backend", "yes")
		w.WriteHeader(201)
		w.Write([]byte("body"))
	})
	h := cache.SessionHandler(backend, nil)
	cl := []*clientState{{}, {}}
	ref := map[string]http.CookieJar{} // session id -> reference jar
	var obs []string
	for step, ai := range seq {
		cur = alphabet[ai]
		var cs *clientState
		if cur.client < 2 {
			cs = cl[cur.client]
		} else {
			cs = &clientState{}
		}
		r := httptest.NewRequest("GET", "http://"+cur.host+cur.path, nil)
		r.Host = cur.host
		var sent []string
		if cur.extra != "" {
			sent = append(sent, cur.extra)
		}
		if cs.cookie != "" {
			sent = append(sent, cookieName+"="+cs.cookie)
		}
		if len(sent) > 0 {
			r.Header.Set("Cookie", strings.Join(sent, "; "))
		}
		seen = nil
		rec := httptest.NewRecorder()
		t0 := time.Now()
		h.ServeHTTP(skip1xx{rec}, r)
		t1 := time.Now()
		where := fmt.Sprintf("step %d of %v (client %d, %s%s, reply %q)", step+1, seq, cur.client, cur.host, cur.path, cur.reply)
		if seen == nil {
			x.Violations = append(x.Violations, "NOBACKEND: request did not reach the backend at "+where)
			break
		}
		// what the backend must see
		var want []string
		if cur.extra != "" {
			want = append(want, cur.extra)
		}
		u := &url.URL{Scheme: "https", Host: cur.host, Path: cur.path}
		if cs.cookie != "" {
			if j := ref[cs.cookie]; j != nil {
				for _, c := range j.Cookies(u) {
					want = append(want, c.Name+"="+c.Value)
				}
			}
		}
		var got []string
		for _, c := range seen.Cookies() {
			got = append(got, c.Name+"="+c.Value)
		}
		if strings.Join(got, "; ") != strings.Join(want, "; ") {
			x.Violations = append(x.Violations, fmt.Sprintf("BACKENDCOOKIES: backend saw Cookie %q, a compliant jar for this session and URL plus the client's own cookies gives %q, at %s", got, want, where))
		}
		for _, c := range seen.Cookies() {
			if c.Name == cookieName {
				x.Violations = append(x.Violations, "SESSIONCOOKIE: the session cookie itself reached the backend at "+where)
			}
		}
		// what the client may see
		resp := rec.Result()
		var sessionSet *http.Cookie
		for _, c := range resp.Cookies() {
			if c.Name == cookieName && sessionSet == nil {
				sessionSet = c
				continue
			}
			x.Violations = append(x.Violations, fmt.Sprintf("LEAK: Set-Cookie %q reached the client at %s", c.String(), where))
		}
		if len(resp.Header["Set-Cookie"]) > 1 {
			x.Violations = append(x.Violations, fmt.Sprintf("LEAK: %d Set-Cookie fields reached the client at %s", len(resp.Header["Set-Cookie"]), where))
		}
		for _, line := range resp.Header["Set-Cookie"] {
			if !strings.HasPrefix(line, cookieName+"=") {
				x.Violations = append(x.Violations, fmt.Sprintf("LEAK: Set-Cookie line %q reached the client at %s", line, where))
			}
		}
		sid := cs.cookie
		if cs.cookie == "" {
			if sessionSet == nil {
				x.Violations = append(x.Violations, "NOSESSION: a client without session cookie was not issued one at "+where)
			} else {
				if !sessionSet.HttpOnly || sessionSet.Path != "/" || !sessionSet.Secure {
					x.Violations = append(x.Violations, fmt.Sprintf("ATTRS: session cookie %q lacks HttpOnly / Path=/ / Secure at %s", sessionSet.String(), where))
				}
				if sessionSet.Expires.Before(t0.Add(lifetime-2*time.Second)) || sessionSet.Expires.After(t1.Add(lifetime+2*time.Second)) {
					x.Violations = append(x.Violations, fmt.Sprintf("ATTRS: session cookie expires %v, configured lifetime %v, at %s", sessionSet.Expires.Sub(t0), lifetime, where))
				}
				sid = sessionSet.Value
				if ref[sid] != nil {
					x.Violations = append(x.Violations, "REUSED: a new client was issued an existing session id at "+where)
				}
				cs.cookie = sid
			}
		} else if sessionSet != nil {
			x.Violations = append(x.Violations, "REISSUE: a client that presented a session cookie was issued another one at "+where)
		}
		if resp.StatusCode != 201 || rec.Body.String() != "body" || resp.Header.Get("X-Backend") != "yes" {
			x.Violations = append(x.Violations, "ALTERED: status/body/other headers of the backend response changed at "+where)
		}
		// reference jar update
		if sid != "" && len(cur.reply) > 0 {
			if ref[sid] == nil {
				ref[sid] = newJar()
			}
			hdr := http.Header{}
			for _, sc := range cur.reply {
				hdr.Add("Set-Cookie", sc)
			}
			ref[sid].SetCookies(u, (&http.Response{Header: hdr}).Cookies())
		} else if sid != "" && ref[sid] == nil {
			ref[sid] = newJar()
		}
		obs = append(obs, strings.Join(got, ";"))
		if len(x.Violations) > 0 {
			break
		}
	}
	x.Obs = strings.Join(obs, " | ")
	x.Nontrivial = strings.Contains(x.Obs, "=")
	return x
}

func main() {
	vx.EnumMain(&vx.Enum{
		Property: "C10", Name: "sesshist",
		Init: func(tier string) {
			if tier == "thorough" {
				buildAlphabet(false)
				buildLongRuns()
			}
		},
		Rule:     fmt.Sprintf("cases = all sequences of depth 3 over %d operations (quick: thinned alphabet, thorough: full product) (client x host x path x client cookies x backend Set-Cookie reply) + 3 long runs; non-trivial = some cookie reached the backend during the history", len(alphabet)),
		Total:    total,
		Eval:     eval,
		Describe: func(tier string, i int) string { return fmt.Sprintf("history %v", seqOf(tier, i)) },
	})
}
