// Harness pipeeq: the specification-level pipe (package vio) against the
// standard library's own io/pipe.go virtualised by vsrewrite (package viogen).
// For every script of up to 2 writers and 2 readers with up to 2 operations
// each, plus every close variant, both implementations are explored under all
// interleavings up to the preemption bound; the sets of observable outcomes
// (what each operation returned) must be equal.
package main

import (
	"fmt"
	"io"
	"sort"
	"strings"

	"github.com/google/inverting-proxy/zz_verif/vio"
	"github.com/google/inverting-proxy/zz_verif/viogen"
	"github.com/google/inverting-proxy/zz_verif/vs"
	"github.com/google/inverting-proxy/zz_verif/vx"
)

type rd interface {
	Read([]byte) (int, error)
	CloseWithError(error) error
}
type wr interface {
	Write([]byte) (int, error)
	CloseWithError(error) error
}

// a script: per thread a list of ops; w<n> write n bytes, r<n> read into n bytes, cw / cr close ends, ce close with custom error
type script [][]string

func run(s *vs.Sched, sc script, r rd, w wr) func() string {
	res := make([][]string, len(sc))
	seq := byte(0)
	for ti, ops := range sc {
		ti, ops := ti, ops
		s.Thread(fmt.Sprintf("t%d", ti), func() {
			for _, op := range ops {
				var n int
				var err error
				switch {
				case op[0] == 'w':
					fmt.Sscanf(op[1:], "%d", &n)
					b := make([]byte, n)
					for i := range b {
						seq++
						b[i] = 'a' + byte(ti)
					}
					n, err = w.Write(b)
					res[ti] = append(res[ti], fmt.Sprintf("%s=%d,%v", op, n, err))
				case op[0] == 'r':
					fmt.Sscanf(op[1:], "%d", &n)
					b := make([]byte, n)
					n, err = r.Read(b)
					res[ti] = append(res[ti], fmt.Sprintf("%s=%q,%v", op, b[:n], err))
				case op == "cw":
					w.CloseWithError(nil)
				case op == "cr":
					r.CloseWithError(nil)
				case op == "cwe":
					w.CloseWithError(io.ErrUnexpectedEOF)
				case op == "cre":
					r.CloseWithError(io.ErrNoProgress)
				}
			}
		})
	}
	return func() string {
		var parts []string
		for ti, rs := range res {
			parts = append(parts, fmt.Sprintf("t%d[%s]", ti, strings.Join(rs, " ")))
		}
		return strings.Join(parts, " ")
	}
}

func scenario(name string, sc script, gen bool, pb int) vx.Scenario {
	return vx.Scenario{Name: name, PB: pb, MaxSteps: 5000,
		Setup: func(s *vs.Sched) func(*vs.Result) vx.Exec {
			var out func() string
			if gen {
				r, w := viogen.Pipe()
				out = run(s, sc, r, w)
			} else {
				r, w := vio.Pipe()
				out = run(s, sc, r, w)
			}
			return func(r *vs.Result) vx.Exec {
				var x vx.Exec
				for _, p := range r.Panics {
					x.Violations = append(x.Violations, "PANIC: "+p)
				}
				var bl []string
				for _, b := range r.Blocked {
					bl = append(bl, b.Thread)
				}
				sort.Strings(bl)
				x.Obs = out() + " blocked=" + strings.Join(bl, ",")
				return x
			}
		}}
}

func scripts() []script {
	wops := [][]string{{"w0"}, {"w1"}, {"w3"}, {"w1", "w2"}, {"w3", "cw"}, {"w2", "cwe"}, {"cw"}, {"cw", "w1"}}
	rops := [][]string{{"r2"}, {"r1", "r1"}, {"r5", "r5"}, {"r2", "cr"}, {"cr"}, {"cre", "r1"}, {"r1", "r1", "r1"}}
	var out []script
	for _, a := range wops {
		for _, b := range rops {
			out = append(out, script{a, b})
		}
	}
	for _, a := range [][]string{{"w2"}, {"w1", "cw"}} {
		for _, b := range [][]string{{"w3"}, {"w1", "w1"}} {
			for _, c := range [][]string{{"r2", "r2", "r2"}, {"r1", "cr"}, {"r5"}} {
				out = append(out, script{a, b, c})
				out = append(out, script{a, b, c, {"r1"}})
			}
		}
	}
	return out
}

func main() {
	// The comparison itself is done by the driver: outcomes are the observations; the
	// scenario names pair "spec/<i>" with "gen/<i>" and tools/pipeeq.sh compares the sets.
	vx.Main(&vx.Harness{Property: "PIPE", Name: "pipeeq", Scenarios: func(tier string) []vx.Scenario {
		var out []vx.Scenario
		for i, sc := range scripts() {
			out = append(out, scenario(fmt.Sprintf("spec/%03d %v", i, sc), sc, false, 2))
			out = append(out, scenario(fmt.Sprintf("gen/%03d %v", i, sc), sc, true, 2))
		}
		return out
	}})
}
