// Harness backoff: utils.ExponentialBackoffDuration over an explicit list of
// retry counts (all of 0..65536, every 2^k-1, 2^k, 2^k+1, the values the
// property names) x three pinned jitter answers, against an oracle computed
// from the property statement in exact integer arithmetic.
package main

import (
	"fmt"
	"math"
	"math/big"
	"math/bits"
	"time"

	"github.com/google/inverting-proxy/agent/utils"
	"github.com/google/inverting-proxy/zz_verif/venv"
	"github.com/google/inverting-proxy/zz_verif/vx"
)

var counts []uint
var jitters = []float64{0, 0.5, math.Nextafter(1, 0)}
var jnames = []string{"lo", "mid", "hi"}

func init() {
	seen := map[uint]bool{}
	add := func(n uint) {
		if !seen[n] {
			seen[n] = true
			counts = append(counts, n)
		}
	}
	for n := uint(0); n <= 65536; n++ {
		add(n)
	}
	for k := 0; k < bits.UintSize; k++ {
		p := uint(1) << uint(k)
		add(p - 1)
		add(p)
		add(p + 1)
	}
	add(math.MaxUint32 - 1)
	add(math.MaxUint32)
	add(math.MaxUint)
	add(math.MaxUint - 1)
	for _, n := range []uint{11, 12, 62, 63, 64} {
		add(n)
	}
}

func eval(tier string, i int) vx.Exec {
	n := counts[i/len(jitters)]
	j := i % len(jitters)
	venv.Hooks.Jitter = func() float64 { return jitters[j] }
	d := utils.ExponentialBackoffDuration(n)
	var x vx.Exec
	// base = min(2^n ms, 3 s), exactly
	base := new(big.Int).SetInt64(int64(3 * time.Second))
	if n < 62 {
		p := new(big.Int).Lsh(big.NewInt(int64(time.Millisecond)), n)
		if p.Cmp(base) < 0 {
			base = p
		}
	}
	lo := new(big.Int).Mul(base, big.NewInt(9))
	hi := new(big.Int).Mul(base, big.NewInt(11))
	d10 := new(big.Int).Mul(big.NewInt(int64(d)), big.NewInt(10))
	tol := big.NewInt(10 * 1000) // 1 microsecond of float rounding
	x.Obs = fmt.Sprintf("n=%d j=%s d=%v", n, jnames[j], d)
	x.Nontrivial = true
	if d <= 0 {
		x.Violations = append(x.Violations, fmt.Sprintf("NONPOSITIVE: delay %v for retry count %d (jitter %s): the agent would busy-loop", d, n, jnames[j]))
	} else if new(big.Int).Add(d10, tol).Cmp(lo) < 0 || new(big.Int).Sub(d10, tol).Cmp(hi) > 0 {
		x.Violations = append(x.Violations, fmt.Sprintf("OUTOFRANGE: delay %v for retry count %d (jitter %s), expected %v +-10%%", d, n, jnames[j], time.Duration(base.Int64())))
	}
	// monotone in n for equal jitter
	if n > 0 && n < 70000 {
		if prev := utils.ExponentialBackoffDuration(n - 1); prev > d {
			x.Violations = append(x.Violations, fmt.Sprintf("NONMONOTONE: delay shrinks from %v to %v between retry counts %d and %d", prev, d, n-1, n))
		}
	}
	return x
}

func main() {
	vx.EnumMain(&vx.Enum{
		Property: "C08", Name: "backoff",
		Rule:  "cases = (retry count in {0..65536} + {2^k-1,2^k,2^k+1 : k<64} + {MaxUint32-1, MaxUint32, MaxUint-1, MaxUint}) x jitter in {0, 0.5, 1-2^-53}; each case is distinct; all are non-trivial (each calls the function under test)",
		Total: func(string) int { return len(counts) * len(jitters) },
		Eval:  eval,
		Describe: func(_ string, i int) string {
			return fmt.Sprintf("retry count %d, jitter %s", counts[i/len(jitters)], jnames[i%len(jitters)])
		},
	})
}
