// Harness sesslru (C10, bounded session cache): histories over more sessions
// than the configured cache limit. Every sequence of requests up to a depth by
// four returning clients and fresh clients goes through the real sessions
// handler with a limit of 2 or 3 sessions; a reference model of "least
// recently used" decides for each request whether its session must still be
// held, and if so the backend must see the cookie stored in it.
//
// The premise is conservative: the handler touches the key of the presented
// session cookie (the empty key for none) when a request arrives and the key of
// the (possibly new) session when the response header is written; a session is
// only demanded to be present when fewer than limit-1 other distinct keys -
// other sessions, the empty key, new sessions of fresh clients - were touched
// since it was last used.
package main

import (
	"fmt"
	"net/http"
	"net/http/httptest"
	"strings"
	"time"

	"github.com/google/inverting-proxy/agent/sessions"
	"github.com/google/inverting-proxy/zz_verif/vx"
)

const cookieName = "proxy-session"
const nClients = 4
const nOps = nClients + 1 // the last one is a fresh client

var limits = []int{2, 3}

func depth(tier string) int {
	if tier == "thorough" {
		return 8
	}
	return 7
}

func pow(b, e int) int {
	r := 1
	for i := 0; i < e; i++ {
		r *= b
	}
	return r
}

func total(tier string) int { return len(limits) * pow(nOps, depth(tier)) }

func caseOf(tier string, i int) (limit int, seq []int) {
	n := pow(nOps, depth(tier))
	limit = limits[i/n]
	i %= n
	d := depth(tier)
	seq = make([]int, d)
	for k := d - 1; k >= 0; k-- {
		seq[k] = i % nOps
		i /= nOps
	}
	return
}

func eval(tier string, idx int) vx.Exec {
	limit, seq := caseOf(tier, idx)
	var x vx.Exec
	cache := sessions.NewCache(cookieName, time.Hour, limit, false)
	var setCookie string
	var saw string
	backend := http.HandlerFunc(func(w http.ResponseWriter, r *http.Request) {
		saw = r.Header.Get("Cookie")
		if setCookie != "" {
			w.Header().Add("Set-Cookie", setCookie)
		}
		w.WriteHeader(200)
	})
	h := cache.SessionHandler(backend, nil)
	held := make([]string, nClients) // session cookie each returning client holds
	hasTok := make([]bool, nClients) // the backend set tok<k>=1 in that session
	// reference recency list of keys, most recent last
	var recency []string
	touch := func(k string) {
		for i, r := range recency {
			if r == k {
				recency = append(recency[:i], recency[i+1:]...)
				break
			}
		}
		recency = append(recency, k)
	}
	othersSince := func(k string) int {
		for i, r := range recency {
			if r == k {
				return len(recency) - 1 - i
			}
		}
		return 1 << 20
	}
	fresh := 0
	var obs []string
	for step, o := range seq {
		r := httptest.NewRequest("GET", "http://h.example.com/", nil)
		r.Host = "h.example.com"
		setCookie = ""
		key := ""
		mustHold := false
		if o < nClients {
			if held[o] != "" {
				r.Header.Set("Cookie", cookieName+"="+held[o])
				key = held[o]
				mustHold = hasTok[o] && othersSince(key) <= limit-1
			} else {
				setCookie = fmt.Sprintf("tok%d=1", o)
			}
		} else {
			fresh++
			setCookie = fmt.Sprintf("fresh%d=1", fresh)
		}
		saw = "<none>"
		rec := httptest.NewRecorder()
		h.ServeHTTP(rec, r)
		where := fmt.Sprintf("step %d of %v with a cache limit of %d sessions", step+1, seq, limit)
		if saw == "<none>" {
			x.Violations = append(x.Violations, "NOBACKEND: request did not reach the backend at "+where)
			break
		}
		want := fmt.Sprintf("tok%d=1", o)
		if o < nClients && saw != "" && saw != want {
			x.Violations = append(x.Violations, fmt.Sprintf("MIXED: client %d reached the backend with %q at %s", o, saw, where))
		}
		if o >= nClients && saw != "" {
			x.Violations = append(x.Violations, fmt.Sprintf("MIXED: a fresh client reached the backend with %q at %s", saw, where))
		}
		if mustHold && saw != want {
			x.Violations = append(x.Violations, fmt.Sprintf("EVICTED-WHILE-RECENT: client %d's session was used %d distinct keys ago (limit %d) but the backend saw %q instead of %q at %s", o, othersSince(key), limit, saw, want, where))
		}
		// bookkeeping of the reference
		touch(key)
		newID := ""
		for _, c := range rec.Result().Cookies() {
			if c.Name == cookieName {
				newID = c.Value
			} else {
				x.Violations = append(x.Violations, fmt.Sprintf("LEAK: Set-Cookie %q reached the client at %s", c.String(), where))
			}
		}
		if key == "" {
			if newID == "" {
				x.Violations = append(x.Violations, "NOSESSION: a client without session cookie was not issued one at "+where)
				break
			}
			touch(newID)
			if o < nClients {
				held[o] = newID
				hasTok[o] = true
			}
		} else {
			touch(key)
			if saw != want {
				// the session had been dropped (legitimately or not): its jar is a new empty one now
				hasTok[o] = false
			}
		}
		obs = append(obs, saw)
		if len(x.Violations) > 0 {
			break
		}
	}
	x.Obs = fmt.Sprintf("limit=%d %s", limit, strings.Join(obs, "|"))
	x.Nontrivial = strings.Contains(x.Obs, "tok")
	return x
}

func main() {
	vx.EnumMain(&vx.Enum{
		Property: "C10", Name: "sesslru",
		Rule:  "cases = cache limit {2,3} x all request sequences of depth 7 (quick) / 8 (thorough) over {returning client 0..3, fresh client}; a client's first request sets one cookie in its session; non-trivial = some stored cookie reached the backend",
		Total: total,
		Eval:  eval,
		Describe: func(tier string, i int) string {
			l, s := caseOf(tier, i)
			return fmt.Sprintf("limit %d history %v", l, s)
		},
	})
}
