// Harness sessconc (C10, schedules): concurrent requests through the real
// sessions handler under the controlled scheduler. The backend handler parks at
// a scheduling point so that requests overlap; groupcache's lru.Cache is a
// declared non-thread-safe object.
package main

import (
	"fmt"
	"net/http"
	"net/http/httptest"
	"strings"
	"time"
	"unsafe"

	"github.com/google/inverting-proxy/agent/sessions"
	"github.com/google/inverting-proxy/zz_verif/vs"
	"github.com/google/inverting-proxy/zz_verif/vx"
)

const cookieName = "proxy-session"

type reqSpec struct {
	client string // session owner: "A", "B" or "" (no session yet)
	path   string
	reply  string // Set-Cookie from the backend ("" none); "%" is replaced by the client name
}

type result struct {
	spec       reqSpec
	backendSaw string
	setCookies []string
	status     int
	done       bool
}

func scenario(name string, limit int, warm []reqSpec, conc []reqSpec, after []reqSpec, pb int) vx.Scenario {
	return vx.Scenario{Name: name, PB: pb, MaxSteps: 5000,
		Setup: func(s *vs.Sched) func(*vs.Result) vx.Exec {
			cache := sessions.NewCache(cookieName, time.Hour, limit, false)
			var sync int
			type ev struct{ kind, key string }
			var log []ev
			backend := http.HandlerFunc(func(w http.ResponseWriter, r *http.Request) {
				// the backend takes its time: other requests may run meanwhile
				vs.Point("backend", unsafe.Pointer(&sync))
				if r.Header.Get("X-Reply") != "" {
					log = append(log, ev{"set", r.Header.Get("X-Client")})
				}
				w.Header().Set("X-Saw", r.Header.Get("Cookie"))
				if sc := r.Header.Get("X-Reply"); sc != "" {
					w.Header().Add("Set-Cookie", sc)
				}
				w.WriteHeader(200)
			})
			h := cache.SessionHandler(backend, nil)
			cookies := map[string]string{} // client -> session cookie
			do := func(sp reqSpec) *result {
				r := httptest.NewRequest("GET", "http://h1.example.com"+sp.path, nil)
				r.Host = "h1.example.com"
				if c := cookies[sp.client]; c != "" {
					r.Header.Set("Cookie", cookieName+"="+c)
				}
				if sp.reply != "" {
					r.Header.Set("X-Reply", strings.ReplaceAll(sp.reply, "%", sp.client))
				}
				r.Header.Set("X-Client", sp.client)
				vs.Touch(unsafe.Pointer(&sync))
				log = append(log, ev{"touch", sp.client + "/" + cookies[sp.client]})
				rec := httptest.NewRecorder()
				res := &result{spec: sp}
				h.ServeHTTP(rec, r)
				res.status, res.backendSaw, res.done = rec.Code, rec.Header().Get("X-Saw"), true
				vs.Touch(unsafe.Pointer(&sync))
				log = append(log, ev{"touch", sp.client + "/end"})
				for _, c := range rec.Result().Cookies() {
					res.setCookies = append(res.setCookies, c.Name+"="+c.Value)
					if c.Name == cookieName && sp.client != "" && cookies[sp.client] == "" {
						cookies[sp.client] = c.Value
					}
				}
				return res
			}
			var warmRes, afterRes []*result
			concRes := make([]*result, len(conc))
			phase := 0
			s.Thread("driver", func() {
				for _, sp := range warm {
					warmRes = append(warmRes, do(sp))
				}
				vs.Touch(unsafe.Pointer(&phase))
				phase = 1
				vs.Wait("concurrent requests done", unsafe.Pointer(&phase), func() bool {
					for _, r := range concRes {
						if r == nil || !r.done {
							return false
						}
					}
					return true
				})
				for _, sp := range after {
					afterRes = append(afterRes, do(sp))
				}
			})
			for i, sp := range conc {
				i, sp := i, sp
				s.Thread(fmt.Sprintf("req%d-%s", i, sp.client), func() {
					vs.Wait("warm-up done", unsafe.Pointer(&phase), func() bool { return phase == 1 })
					concRes[i] = &result{spec: sp}
					r := do(sp)
					vs.Touch(unsafe.Pointer(&phase))
					concRes[i] = r
				})
			}
			return func(r *vs.Result) vx.Exec {
				var x vx.Exec
				for _, p := range r.Panics {
					x.Violations = append(x.Violations, "PANIC: "+p)
				}
				for _, rc := range r.Races {
					x.Violations = append(x.Violations, fmt.Sprintf("RACE: unsynchronised concurrent use of %s by %s and %s (concurrent requests can corrupt the session cache)", rc.Object, rc.A, rc.B))
				}
				for _, b := range r.Blocked {
					if len(r.Panics) == 0 {
						x.Violations = append(x.Violations, fmt.Sprintf("HANG: %s blocked in %s", b.Thread, b.Op))
					}
				}
				all := append(append(append([]*result{}, warmRes...), concRes...), afterRes...)
				var obs []string
				for _, res := range all {
					if res == nil || !res.done {
						continue
					}
					obs = append(obs, fmt.Sprintf("%s%s:%s", res.spec.client, res.spec.path, res.backendSaw))
					// never another session's cookies, never the session cookie
					for _, other := range []string{"A", "B"} {
						if other != res.spec.client && strings.Contains(res.backendSaw, "tok"+other) {
							x.Violations = append(x.Violations, fmt.Sprintf("MIXED: request of client %q reached the backend with a cookie of session %s: %q", res.spec.client, other, res.backendSaw))
						}
					}
					if strings.Contains(res.backendSaw, cookieName) {
						x.Violations = append(x.Violations, "SESSIONCOOKIE: the session cookie reached the backend: "+res.backendSaw)
					}
					for _, sc := range res.setCookies {
						if !strings.HasPrefix(sc, cookieName+"=") {
							x.Violations = append(x.Violations, "LEAK: backend cookie sent to the client: "+sc)
						}
					}
				}
				// after the concurrent phase each session must hold exactly what was set in it (limit permitting)
				{
					for _, res := range afterRes {
						if !res.done {
							continue
						}
						if limit < 10 {
							// the session must have stayed among the `limit` most recently used ones
							// from the moment its cookie was set: count other sessions touched since
							last := -1
							for i, e := range log {
								if e.kind == "set" && e.key == res.spec.client {
									last = i
								}
							}
							if last < 0 {
								continue
							}
							others := map[string]bool{}
							for _, e := range log[last+1:] {
								if e.kind == "touch" && !strings.HasPrefix(e.key, res.spec.client+"/") {
									others[strings.SplitN(e.key, "/", 2)[0]] = true
								}
							}
							if len(others) >= limit-1 {
								continue
							}
						}
						want := ""
						for _, sp := range append(append([]reqSpec{}, warm...), conc...) {
							if sp.client == res.spec.client && sp.reply != "" && sp.client != "" {
								want = "tok" + sp.client + "=1"
							}
						}
						if res.spec.client != "" && res.backendSaw != want {
							x.Violations = append(x.Violations, fmt.Sprintf("LOST: session %s should present %q to the backend after the concurrent phase, presented %q", res.spec.client, want, res.backendSaw))
						}
					}
				}
				x.Obs = strings.Join(obs, " ")
				return x
			}
		}}
}

// hookWriter models a response writer that hands the header to the client as
// soon as WriteHeader is called (the agent's streaming writer does): the client
// may send its next request from that moment on.
type hookWriter struct {
	*httptest.ResponseRecorder
	on    func(http.Header)
	fired bool
}

func (w *hookWriter) WriteHeader(code int) {
	w.ResponseRecorder.WriteHeader(code)
	if !w.fired {
		w.fired = true
		w.on(w.Header())
	}
}

// followUp: the backend sets a cookie in answer to the first request of a
// session; as soon as the client has the response header it sends the next
// request of that session, which must carry the cookie.
func followUp(existing bool, pb int) vx.Scenario {
	name := "follow-up-on-header/new-session"
	if existing {
		name = "follow-up-on-header/existing-session"
	}
	return vx.Scenario{Name: name, PB: pb, MaxSteps: 5000,
		Setup: func(s *vs.Sched) func(*vs.Result) vx.Exec {
			cache := sessions.NewCache(cookieName, time.Hour, 100, false)
			backend := http.HandlerFunc(func(w http.ResponseWriter, r *http.Request) {
				w.Header().Set("X-Saw", r.Header.Get("Cookie"))
				if sc := r.Header.Get("X-Reply"); sc != "" {
					w.Header().Add("Set-Cookie", sc)
				}
				w.WriteHeader(200)
			})
			h := cache.SessionHandler(backend, nil)
			session := ""
			headerSeen := false
			var sync int
			sawFirst, sawNext := "<none>", "<none>"
			grab := func(hdr http.Header) {
				for _, c := range (&http.Response{Header: hdr}).Cookies() {
					if c.Name == cookieName {
						session = c.Value
					}
				}
			}
			s.Thread("client", func() {
				if existing {
					r := httptest.NewRequest("GET", "http://h1.example.com/", nil)
					rec := httptest.NewRecorder()
					h.ServeHTTP(rec, r)
					grab(rec.Header())
				}
				r := httptest.NewRequest("GET", "http://h1.example.com/login", nil)
				if session != "" {
					r.Header.Set("Cookie", cookieName+"="+session)
				}
				r.Header.Set("X-Reply", "tokA=1")
				w := &hookWriter{ResponseRecorder: httptest.NewRecorder()}
				w.on = func(hdr http.Header) {
					grab(hdr)
					sawFirst = hdr.Get("X-Saw")
					vs.Touch(unsafe.Pointer(&sync))
					headerSeen = true
					vs.Point("response header handed to the client", unsafe.Pointer(&sync))
				}
				h.ServeHTTP(w, r)
			})
			s.Thread("client-next-request", func() {
				vs.Wait("response header of the first request", unsafe.Pointer(&sync), func() bool { return headerSeen })
				r := httptest.NewRequest("GET", "http://h1.example.com/next", nil)
				r.Header.Set("Cookie", cookieName+"="+session)
				rec := httptest.NewRecorder()
				h.ServeHTTP(rec, r)
				sawNext = rec.Header().Get("X-Saw")
			})
			return func(r *vs.Result) vx.Exec {
				var x vx.Exec
				for _, p := range r.Panics {
					x.Violations = append(x.Violations, "PANIC: "+p)
				}
				for _, b := range r.Blocked {
					if len(r.Panics) == 0 {
						x.Violations = append(x.Violations, fmt.Sprintf("HANG: %s blocked in %s", b.Thread, b.Op))
					}
				}
				if len(x.Violations) == 0 && sawNext != "tokA=1" {
					x.Violations = append(x.Violations, fmt.Sprintf("FOLLOW-UP-WITHOUT-COOKIE: the backend set tokA=1 in the response whose header the client had already received, but the next request of that session reached the backend with Cookie %q", sawNext))
				}
				x.Obs = sawFirst + " / " + sawNext
				return x
			}
		}}
}

func main() {
	set := "tok%=1"
	vx.Main(&vx.Harness{Property: "C10", Name: "sessconc", Scenarios: func(tier string) []vx.Scenario {
		pb := 2
		if tier == "thorough" {
			pb = 3
		}
		warmAB := []reqSpec{{"A", "/", set}, {"B", "/", set}}
		out := []vx.Scenario{
			scenario("different-sessions", 100, warmAB, []reqSpec{{"A", "/", ""}, {"B", "/", ""}}, []reqSpec{{"A", "/", ""}, {"B", "/", ""}}, pb),
			scenario("same-session", 100, warmAB, []reqSpec{{"A", "/", ""}, {"A", "/x", ""}}, []reqSpec{{"A", "/", ""}, {"B", "/", ""}}, pb),
			scenario("one-new-client", 100, warmAB, []reqSpec{{"A", "/", ""}, {"", "/", "anon=1"}}, []reqSpec{{"A", "/", ""}, {"B", "/", ""}}, pb),
			scenario("set-while-other-reads", 100, []reqSpec{{"A", "/", ""}, {"B", "/", set}}, []reqSpec{{"A", "/", set}, {"B", "/", ""}}, []reqSpec{{"A", "/", ""}, {"B", "/", ""}}, pb),
			scenario("two-new-clients", 100, nil, []reqSpec{{"A", "/", set}, {"B", "/", set}}, []reqSpec{{"A", "/", ""}, {"B", "/", ""}}, pb),
			// small cache: evictions happen; only no-crash / no-mixing / no-leak is demanded
			scenario("evicted-in-flight", 2, []reqSpec{{"A", "/", ""}, {"B", "/", ""}, {"C", "/", ""}}, []reqSpec{{"A", "/", set}, {"B", "/", ""}, {"C", "/", ""}, {"A", "/x", ""}}, []reqSpec{{"A", "/", ""}}, pb-1),
			scenario("evicting", 2, warmAB, []reqSpec{{"A", "/", ""}, {"", "/", "anon=1"}, {"B", "/", ""}}, []reqSpec{{"A", "/", ""}, {"B", "/", ""}}, pb-1),
		}
		out = append(out, followUp(false, pb), followUp(true, pb))
		if tier == "thorough" {
			out = append(out, scenario("three-way", 100, warmAB, []reqSpec{{"A", "/", ""}, {"B", "/", set}, {"", "/", "anon=1"}}, []reqSpec{{"A", "/", ""}, {"B", "/", ""}}, 2))
		}
		return out
	}})
}
