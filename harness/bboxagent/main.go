// Harness bboxagent (C06): the real agent program, built from the current tree
// and run as a process with its real net/http client and transport (connection
// pool, keep-alive reuse, transparent retries of replayable requests), between a
// scripted raw-socket proxy and a raw-socket backend. The proxy plays one fault
// plan per request on the upload of the response: answer 503 before / after
// reading the body, hang up after / in the middle of the body, reset, on any of
// the attempts. What every attempt carried is recorded on the wire.
//
// It complements harness fwd (the same plans under explored schedules with a
// scripted RoundTripper) with what only the real transport does.
package main

import (
	"bufio"
	"bytes"
	"encoding/json"
	"flag"
	"fmt"
	"io"
	"net"
	"net/http"
	"net/http/httptest"
	"os"
	"os/exec"
	"path/filepath"
	"strings"
	"sync"
	"syscall"
	"time"

	"github.com/google/inverting-proxy/zz_verif/vx"
)

// action of the proxy on one upload attempt
//
//	ok          read the body, answer 200
//	503after    read the body, answer 503 (connection stays open)
//	503early    answer 503 at once, then close (the body is not read)
//	hangafter   read the body, close without answering
//	hangmid     read 100 bytes of the body, close
//	reset       read 100 bytes of the body, reset the connection
type ccase struct {
	size int
	plan []string
	// streams > 0 (C05): this many responses are open at once; each backend sends three chunks and
	// produces the next one only after the proxy has seen the previous one in the upload
	streams int
}

var prop = flag.String("prop", "C06", "C06|C05")

var cases []ccase

func (c ccase) String() string {
	if c.streams > 0 {
		return fmt.Sprintf("%d lock-step streams open at once, chunks of %d bytes", c.streams, c.size)
	}
	return fmt.Sprintf("response body %d bytes, upload plan %v", c.size, c.plan)
}

func build(tier string) {
	cases = nil
	if *prop == "C05" {
		ns := []int{1, 2, 4, 17, 24}
		if tier == "thorough" {
			ns = []int{1, 2, 3, 4, 8, 16, 17, 24, 40}
		}
		for _, n := range ns {
			for _, sz := range []int{16, 5000} {
				cases = append(cases, ccase{size: sz, streams: n})
			}
		}
		return
	}
	acts := []string{"ok", "503after", "503early", "hangafter", "hangmid", "reset"}
	sizes := []int{10, 4097, 100000}
	if tier == "thorough" {
		sizes = []int{0, 10, 4000, 4096, 4097, 9000, 100000, 1 << 20}
	}
	for _, sz := range sizes {
		for _, a := range acts {
			cases = append(cases, ccase{size: sz, plan: []string{a}})
			if a == "ok" {
				continue
			}
			for _, b := range acts {
				cases = append(cases, ccase{size: sz, plan: []string{a, b}})
				if b == "ok" {
					continue
				}
				for _, c := range acts {
					if tier != "thorough" && sz == 100000 && c != "ok" && c != "hangafter" {
						continue
					}
					cases = append(cases, ccase{size: sz, plan: []string{a, b, c}})
				}
			}
		}
	}
}

// ---- rig ----

type attempt struct {
	action   string
	body     []byte // what was read of the upload body (decoded)
	complete bool
	reused   bool // arrived on a connection that had carried a request before
}

type rig struct {
	dir      string
	md       *httptest.Server
	proxy    net.Listener
	backend  net.Listener
	agent    *exec.Cmd
	mu       sync.Mutex
	pending  []string
	wake     chan struct{}
	attempts map[string][]*attempt
	plans    map[string]ccase
	listed   map[string]int
	flushed  map[string]int  // lock-step streams: chunks the backend has written
	stalled  map[string]int  // chunk the backend gave up waiting on
	barrier  map[string]bool // gave up waiting for the other responses' first chunks
}

func binDir() string {
	wd, _ := os.Getwd()
	return filepath.Join(wd, "bboxagent-bin")
}

func buildBinaries(dir string) error {
	cmd := exec.Command("go", "build", "-o", filepath.Join(dir, "agent"), "./agent")
	cmd.Dir = "/repo"
	if r := os.Getenv("VERIF_REPO"); r != "" {
		cmd.Dir = r
	}
	cmd.Env = append(os.Environ(), "GOFLAGS=-mod=mod", "GOPROXY=off", "GOSUMDB=off", "GOTOOLCHAIN=local")
	if out, err := cmd.CombinedOutput(); err != nil {
		return fmt.Errorf("go build ./agent: %v\n%s", err, out)
	}
	return nil
}

func payload(id string, n int) []byte {
	b := make([]byte, n)
	for i := range b {
		b[i] = byte('a' + (i*7+len(id)+i/251)%26)
	}
	return b
}

func streamMarker(id string, k int) string { return fmt.Sprintf("<<%s/%d>>", id, k) }

func streamChunk(id string, k, n int) string {
	m := streamMarker(id, k)
	if n > len(m) {
		return strings.Repeat(".", n-len(m)) + m
	}
	return m
}

func startRig() (*rig, error) {
	r := &rig{wake: make(chan struct{}, 1), attempts: map[string][]*attempt{}, plans: map[string]ccase{}, listed: map[string]int{}, flushed: map[string]int{}, stalled: map[string]int{}, barrier: map[string]bool{}}
	var err error
	r.dir, err = os.MkdirTemp("", "bboxagent-home-")
	if err != nil {
		return nil, err
	}
	r.md = httptest.NewServer(http.HandlerFunc(func(w http.ResponseWriter, q *http.Request) {
		switch {
		case strings.HasPrefix(q.URL.Path, "/computeMetadata/v1/project/project-id"):
			io.WriteString(w, "12345")
		case strings.HasPrefix(q.URL.Path, "/computeMetadata/v1/instance/service-accounts/") && strings.HasSuffix(q.URL.Path, "/token"):
			json.NewEncoder(w).Encode(map[string]interface{}{"access_token": "t", "expires_in": 100000, "token_type": "Bearer"})
		default:
			io.WriteString(w, "ok")
		}
	}))
	if r.backend, err = net.Listen("tcp", "127.0.0.1:0"); err != nil {
		return nil, err
	}
	go r.serveBackend()
	if r.proxy, err = net.Listen("tcp", "127.0.0.1:0"); err != nil {
		return nil, err
	}
	go r.serveProxy()
	r.agent = exec.Command(filepath.Join(binDir(), "agent"), "--backend=b", "--proxy=http://"+r.proxy.Addr().String()+"/", "--host="+r.backend.Addr().String())
	r.agent.Env = []string{"PATH=", "HOME=" + r.dir, "GCE_METADATA_HOST=" + strings.TrimPrefix(r.md.URL, "http://")}
	r.agent.Stderr = io.Discard
	r.agent.SysProcAttr = &syscall.SysProcAttr{Pdeathsig: syscall.SIGKILL}
	if err := r.agent.Start(); err != nil {
		return nil, err
	}
	// warm up: one request with a clean upload
	res := r.run("warm", ccase{size: 10, plan: []string{"ok"}}, 10*time.Second)
	if res == nil || len(res) == 0 || !res[len(res)-1].complete {
		r.stop()
		return nil, fmt.Errorf("the agent did not serve the warm-up request")
	}
	return r, nil
}

func (r *rig) stop() {
	if r.agent != nil && r.agent.Process != nil {
		r.agent.Process.Kill()
		r.agent.Wait()
	}
	for _, l := range []net.Listener{r.proxy, r.backend} {
		if l != nil {
			l.Close()
		}
	}
	if r.md != nil {
		r.md.Close()
	}
	os.RemoveAll(r.dir)
}

func (r *rig) serveBackend() {
	for {
		c, err := r.backend.Accept()
		if err != nil {
			return
		}
		go func(c net.Conn) {
			defer c.Close()
			br := bufio.NewReader(c)
			for {
				req, err := http.ReadRequest(br)
				if err != nil {
					return
				}
				io.Copy(io.Discard, req.Body)
				id := req.Header.Get("X-Case")
				r.mu.Lock()
				p := r.plans[id]
				r.mu.Unlock()
				if p.streams > 0 {
					fmt.Fprintf(c, "HTTP/1.1 200 OK\r\nTransfer-Encoding: chunked\r\nContent-Type: application/octet-stream\r\nX-Case: %s\r\n\r\n", id)
					for k := 1; k <= 3; k++ {
						chunk := streamChunk(id, k, p.size)
						fmt.Fprintf(c, "%x\r\n%s\r\n", len(chunk), chunk)
						r.mu.Lock()
						r.flushed[id] = k
						r.mu.Unlock()
						// lock-step: go on only once the proxy has seen this chunk
						ok := false
						for w := 0; w < 3000 && !ok; w++ {
							r.mu.Lock()
							for _, a := range r.attempts[id] {
								// without its first byte: the serialiser's one-byte probe puts the very first byte
								// of a response body into an HTTP chunk of its own
								if bytes.Contains(a.body, []byte(streamMarker(id, k)[1:])) {
									ok = true
								}
							}
							r.mu.Unlock()
							if !ok {
								time.Sleep(5 * time.Millisecond)
							}
						}
						if !ok {
							r.mu.Lock()
							r.stalled[id] = k
							r.mu.Unlock()
							break
						}
						if k == 1 {
							// all the responses of the case stay open until each of them has had its first chunk
							// relayed: N responses are really open at the same time
							group := id[:strings.LastIndex(id, "-")+1]
							all := false
							for w := 0; w < 3000 && !all; w++ {
								n := 0
								r.mu.Lock()
								for gid, as := range r.attempts {
									if !strings.HasPrefix(gid, group) {
										continue
									}
									for _, a := range as {
										if bytes.Contains(a.body, []byte(streamMarker(gid, 1)[1:])) {
											n++
											break
										}
									}
								}
								r.mu.Unlock()
								all = n >= p.streams
								if !all {
									time.Sleep(5 * time.Millisecond)
								}
							}
							if !all {
								r.mu.Lock()
								r.barrier[id] = true
								r.mu.Unlock()
								break
							}
						}
					}
					io.WriteString(c, "0\r\n\r\n")
					continue
				}
				body := payload(id, p.size)
				fmt.Fprintf(c, "HTTP/1.1 200 OK\r\nContent-Length: %d\r\nX-Case: %s\r\nX-Backend: yes\r\n\r\n", len(body), id)
				c.Write(body)
			}
		}(c)
	}
}

func reply(c net.Conn, status int, body string, closeIt bool) {
	extra := ""
	if closeIt {
		extra = "Connection: close\r\n"
	}
	fmt.Fprintf(c, "HTTP/1.1 %d X\r\nContent-Length: %d\r\n%s\r\n%s", status, len(body), extra, body)
}

func (r *rig) serveProxy() {
	for {
		c, err := r.proxy.Accept()
		if err != nil {
			return
		}
		go func(c net.Conn) {
			defer c.Close()
			br := bufio.NewReaderSize(c, 64<<10)
			served := 0
			for {
				req, err := http.ReadRequest(br)
				if err != nil {
					return
				}
				id := req.Header.Get("X-Inverting-Proxy-Request-Id")
				switch {
				case strings.HasSuffix(req.URL.Path, "/agent/pending"):
					var ids []string
					deadline := time.After(500 * time.Millisecond)
				wait:
					for {
						r.mu.Lock()
						ids, r.pending = r.pending, nil
						for _, i := range ids {
							r.listed[i]++
						}
						r.mu.Unlock()
						if len(ids) > 0 {
							break
						}
						select {
						case <-r.wake:
						case <-deadline:
							break wait
						}
					}
					if ids == nil {
						ids = []string{}
					}
					b, _ := json.Marshal(ids)
					reply(c, 200, string(b), false)
				case strings.HasSuffix(req.URL.Path, "/agent/request"):
					wire := fmt.Sprintf("GET /case/%s HTTP/1.1\r\nHost: client.example\r\nX-Case: %s\r\n\r\n", id, id)
					fmt.Fprintf(c, "HTTP/1.1 200 OK\r\nContent-Length: %d\r\nX-Inverting-Proxy-Request-Start-Time: %s\r\nX-Inverting-Proxy-User-Id: u@example.com\r\n\r\n%s", len(wire), time.Now().Format(time.RFC3339Nano), wire)
				case strings.HasSuffix(req.URL.Path, "/agent/response"):
					r.mu.Lock()
					p := r.plans[id]
					n := len(r.attempts[id])
					act := "ok"
					if n < len(p.plan) {
						act = p.plan[n]
					}
					a := &attempt{action: act, reused: served > 0}
					r.attempts[id] = append(r.attempts[id], a)
					r.mu.Unlock()
					switch act {
					case "ok", "503after", "hangafter":
						// read as it arrives: what has been seen so far is visible to the lock-step backends
						buf := make([]byte, 32<<10)
						var err error
						for {
							var n int
							n, err = req.Body.Read(buf)
							if n > 0 {
								r.mu.Lock()
								a.body = append(a.body, buf[:n]...)
								r.mu.Unlock()
							}
							if err != nil {
								break
							}
						}
						r.mu.Lock()
						a.complete = err == io.EOF
						r.mu.Unlock()
						if act == "hangafter" {
							return
						}
						if act == "ok" {
							reply(c, 200, "", false)
						} else {
							reply(c, 503, "try again", false)
						}
					case "503early":
						reply(c, 503, "try again", true)
						if tc, ok := c.(*net.TCPConn); ok {
							tc.CloseWrite()
						}
						// what still arrives is looked at (not judged) and dropped
						c.SetReadDeadline(time.Now().Add(300 * time.Millisecond))
						b, _ := io.ReadAll(req.Body)
						r.mu.Lock()
						a.body = b
						r.mu.Unlock()
						return
					case "hangmid", "reset":
						buf := make([]byte, 100)
						k, _ := io.ReadFull(req.Body, buf)
						r.mu.Lock()
						a.body = buf[:k]
						r.mu.Unlock()
						if act == "reset" {
							if tc, ok := c.(*net.TCPConn); ok {
								tc.SetLinger(0)
							}
						}
						return
					}
				default:
					reply(c, 404, "", false)
				}
				served++
			}
		}(c)
	}
}

// run hands one request to the agent and waits until its upload has settled.
func (r *rig) run(id string, c ccase, limit time.Duration) []*attempt {
	r.mu.Lock()
	r.plans[id] = c
	r.pending = append(r.pending, id)
	r.mu.Unlock()
	select {
	case r.wake <- struct{}{}:
	default:
	}
	deadline := time.Now().Add(limit)
	last, lastChange := -1, time.Now()
	for time.Now().Before(deadline) {
		r.mu.Lock()
		as := r.attempts[id]
		n := len(as)
		settled := false
		if n > 0 {
			la := as[n-1]
			settled = la.action == "ok" && la.complete
		}
		r.mu.Unlock()
		if n != last {
			last, lastChange = n, time.Now()
		}
		if settled {
			// one more moment: nothing may follow an acknowledged attempt
			time.Sleep(30 * time.Millisecond)
			break
		}
		if n >= len(c.plan) && n > 0 && time.Since(lastChange) > 400*time.Millisecond {
			break
		}
		// attempts follow each other within milliseconds: after 1.5 s of silence nothing more will come
		// (an upload wedged by the stale reader of an early-answered attempt, the recorded finding)
		if n > 0 && time.Since(lastChange) > 1500*time.Millisecond {
			break
		}
		time.Sleep(5 * time.Millisecond)
	}
	r.mu.Lock()
	defer r.mu.Unlock()
	return append([]*attempt(nil), r.attempts[id]...)
}

var theRig *rig
var rigErr string
var seq int

func ensureRig() {
	if theRig != nil {
		return
	}
	var err error
	for i := 0; i < 3; i++ {
		theRig, err = startRig()
		if err == nil {
			rigErr = ""
			return
		}
		theRig = nil
	}
	rigErr = "the agent rig (agent process, scripted proxy, backend) did not come up: " + err.Error()
}

func eval(tier string, i int) vx.Exec {
	var x vx.Exec
	x.Nontrivial = true
	ensureRig()
	if theRig == nil {
		x.Infra = rigErr
		return x
	}
	c := cases[i]
	seq++
	if c.streams > 0 {
		return evalStreams(c, i)
	}
	id := fmt.Sprintf("c%d-%d-%d", os.Getpid(), i, seq)
	as := theRig.run(id, c, 15*time.Second)
	var obs []string
	for _, a := range as {
		obs = append(obs, fmt.Sprintf("%s:%d/%v", a.action, len(a.body), a.complete))
	}
	x.Obs = fmt.Sprintf("%s -> %v", c, obs)
	if len(as) == 0 {
		x.Infra = "the agent never uploaded anything for " + c.String() + " (machine overloaded?)"
		theRig.stop()
		theRig = nil
		return x
	}
	earlyBefore := false
	for k, a := range as {
		if k >= 3 {
			x.Violations = append(x.Violations, fmt.Sprintf("ATTEMPTS: the proxy received %d uploads of one response (%s; attempt %d arrived on a %s connection); at most 3 allowed", len(as), x.Obs, k+1, map[bool]string{true: "reused", false: "fresh"}[a.reused]))
			break
		}
		if a.action == "ok" {
			want := payload(id, c.size)
			resp, err := http.ReadResponse(bufio.NewReader(bytes.NewReader(a.body)), nil)
			tag := ""
			if earlyBefore {
				tag = "STALE-READER-"
			}
			if !a.complete || err != nil {
				x.Violations = append(x.Violations, fmt.Sprintf("%sCORRUPT: attempt %d was acknowledged but its %d bytes are not a complete HTTP response (%v): %s", tag, k+1, len(a.body), err, x.Obs))
			} else {
				b, rerr := io.ReadAll(resp.Body)
				if rerr != nil || !bytes.Equal(b, want) || resp.Header.Get("X-Case") != id || resp.StatusCode != 200 {
					x.Violations = append(x.Violations, fmt.Sprintf("%sCORRUPT: attempt %d was acknowledged but carried status %d, X-Case %q, a body of %d bytes (want %d, read error %v): %s", tag, k+1, resp.StatusCode, resp.Header.Get("X-Case"), len(b), len(want), rerr, x.Obs))
				}
			}
		}
		if a.action == "503early" {
			earlyBefore = true
		}
	}
	return x
}

func evalStreams(c ccase, i int) vx.Exec {
	var x vx.Exec
	x.Nontrivial = true
	r := theRig
	ids := make([]string, c.streams)
	r.mu.Lock()
	for k := range ids {
		ids[k] = fmt.Sprintf("s%d-%d-%d-%d", os.Getpid(), i, seq, k)
		r.plans[ids[k]] = c
	}
	r.pending = append(r.pending, ids...)
	r.mu.Unlock()
	select {
	case r.wake <- struct{}{}:
	default:
	}
	deadline := time.Now().Add(40 * time.Second)
	done := 0
	for time.Now().Before(deadline) {
		done = 0
		gaveUp := 0
		r.mu.Lock()
		for _, id := range ids {
			as := r.attempts[id]
			if len(as) > 0 && as[len(as)-1].complete {
				done++
			}
			if r.stalled[id] > 0 || r.barrier[id] {
				gaveUp++
			}
		}
		r.mu.Unlock()
		if done+gaveUp == len(ids) {
			break
		}
		time.Sleep(10 * time.Millisecond)
	}
	r.mu.Lock()
	defer r.mu.Unlock()
	stalled, never := 0, 0
	for _, id := range ids {
		if k := r.stalled[id]; k > 0 {
			stalled++
			if len(x.Violations) < 2 {
				x.Violations = append(x.Violations, fmt.Sprintf("STALL: with %d responses open at once, a backend flushed chunk %d of its response and the proxy had not seen it 15 s later (%d-byte chunks); the agent relays a flushed chunk only after other responses end", c.streams, k, c.size))
			}
		} else if r.flushed[id] == 0 {
			never++
		}
	}
	x.Obs = fmt.Sprintf("%s: %d of %d completed, %d stalled, %d never reached the backend", c, done, len(ids), stalled, never)
	if never > 0 && stalled == 0 {
		x.Violations = append(x.Violations, fmt.Sprintf("NEVER: %d of %d simultaneously listed requests never reached the backend within 40 s", never, len(ids)))
	}
	if len(x.Violations) > 0 {
		// the agent may be wedged with open uploads: start afresh for the next case
		theRig.stop()
		theRig = nil
	}
	return x
}

func main() {
	flag.Parse()
	en := &vx.Enum{Property: *prop, Name: "bboxagent-" + strings.ToLower(*prop),
		Rule: map[bool]string{true: "cases = N lock-step streaming responses open at once, N in {1,2,4,17,24} (thorough: up to 40) x chunk size {16, 5000}: each backend sends three chunks and waits for the proxy to see each one before the next; through the real agent process and transport; all cases are distinct and non-trivial", false: ""}[*prop == "C05"] + map[bool]string{true: "", false: "cases = response size {10, 4097, 100000} (thorough: 8 sizes up to 1 MiB) x upload plan: every sequence of up to 3 proxy actions over {ok, 503 after the body, 503 before the body, hang up after the body, hang up mid-body, reset mid-body} ending at the first ok (quick: thinned third action for the largest size); each through the real agent process and its real net/http transport; all cases are distinct and non-trivial"}[*prop == "C05"],
		Init: func(tier string) {
			build(tier)
			if flag.Lookup("worker").Value.String() != "true" {
				os.MkdirAll(binDir(), 0755)
				if err := buildBinaries(binDir()); err != nil {
					fmt.Fprintln(os.Stderr, err)
					os.Exit(3)
				}
			}
		},
		Total:    func(string) int { return len(cases) },
		Eval:     eval,
		Describe: func(_ string, i int) string { return cases[i].String() },
	}
	defer func() {
		if theRig != nil {
			theRig.stop()
		}
	}()
	vx.EnumMain(en)
}
