// Harness bboxbridge (C15): the two real TCP-bridge programs
// (utils/tcpbridge/tcp-bridge-frontend and tcp-bridge-backend), built from the
// current tree, run as processes over loopback sockets: a raw TCP client
// connects to the frontend, a raw TCP server stands behind the backend. A
// bounded-exhaustive set of write/read plans (sizes around the websocket and
// copy buffers, 1-byte to 64 KiB read buffers, both directions at once, a
// half-closing client, two connections at a time) is pushed through and both
// streams are compared byte for byte; plain HTTP requests sent to the bridge
// backend must reach the backend port unchanged and their answers come back.
//
// It complements harness bridge (same plans under explored schedules on the
// in-memory network) with the real gorilla/websocket and kernel sockets.
package main

import (
	"bufio"
	"bytes"
	"flag"
	"fmt"
	"io"
	"net"
	"net/http"
	"os"
	"os/exec"
	"path/filepath"
	"strings"
	"sync"
	"syscall"
	"time"

	"github.com/google/inverting-proxy/utils/tcpbridge/connection"
	"github.com/google/inverting-proxy/zz_verif/vx"
)

type plan struct {
	up, down []int
	rbuf     int
	half     bool
	second   bool // a second connection with the mirrored plan runs at the same time
	// lateRead: both ends start reading only after this long, while both keep writing: every buffer on the
	// way fills up in both directions at once
	lateRead time.Duration
}

type httpCase struct {
	method, target string
	hdr            [][2]string
	body           int
	upgrade        bool // a websocket handshake (for a path that is not the bridge's own)
}

type bcase struct {
	p *plan
	h *httpCase
}

var cases []bcase

func (c bcase) String() string {
	if c.h != nil {
		return fmt.Sprintf("pass-through %s %s hdr=%v body=%d", c.h.method, c.h.target, c.h.hdr, c.h.body)
	}
	return fmt.Sprintf("plan up%v down%v rbuf=%d half=%v second=%v lateRead=%v", c.p.up, c.p.down, c.p.rbuf, c.p.half, c.p.second, c.p.lateRead)
}

var prop = flag.String("prop", "C15", "C15|C16")

func build(tier string) {
	cases = nil
	th := tier == "thorough"
	if *prop == "C16" {
		// one peer sends far more than the buffers on the way can hold while the other does not read for
		// 13 s: everything sent before the close still arrives
		cases = append(cases, bcase{p: &plan{up: []int{48 << 20}, down: []int{1}, rbuf: 65536, lateRead: 13 * time.Second}})
		cases = append(cases, bcase{p: &plan{up: []int{1}, down: []int{48 << 20}, rbuf: 65536, lateRead: 13 * time.Second}})
		return
	}
	sizes := []int{0, 1, 2, 1024, 1025, 32768, 32769, 70000}
	bufs := []int{1, 7, 4096, 65536}
	for _, rb := range bufs {
		for _, a := range sizes {
			for _, b := range sizes {
				if rb == 1 && (a > 2000 || b > 2000) {
					continue
				}
				if !th && (a+b)%3 == 1 {
					continue
				}
				cases = append(cases, bcase{p: &plan{up: []int{a, b}, down: []int{b, 3}, rbuf: rb}})
				if th || (a+b)%2 == 0 {
					cases = append(cases, bcase{p: &plan{up: []int{a, 1}, down: []int{b, a, 1}, rbuf: rb, second: true}})
				}
			}
		}
	}
	for _, up := range []int{1, 1025, 70000} {
		for _, down := range []int{1, 1025, 70000, 1 << 20} {
			cases = append(cases, bcase{p: &plan{up: []int{up}, down: []int{down, 3}, rbuf: 4096, half: true}})
		}
	}
	if th {
		cases = append(cases, bcase{p: &plan{up: []int{8 << 20}, down: []int{8 << 20}, rbuf: 65536}})
	}
	// full-duplex bulk transfer with both readers starting late
	cases = append(cases, bcase{p: &plan{up: []int{24 << 20}, down: []int{24 << 20}, rbuf: 65536, lateRead: 1500 * time.Millisecond}})
	// websocket handshakes that are not the bridge's own: the backend application's websocket endpoints
	for _, t := range []string{"/ws", "/", connection.StreamingPath + "/sub", "/a/" + strings.TrimPrefix(connection.StreamingPath, "/")} {
		cases = append(cases, bcase{h: &httpCase{method: "GET", target: t, hdr: [][2]string{{"X-A", "1"}, {"Sec-WebSocket-Protocol", "chat"}}, upgrade: true}})
	}
	// all 256 byte values in one write are part of pattern(): see there
	for _, m := range []string{"GET", "POST", "PUT", "DELETE", "OPTIONS"} {
		for _, t := range []string{"/", "/a%2Fb?x=1&x=2", "/tcp-over-ws-bridge/other", "/%E2%82%AC?q=%20", connection.StreamingPath, connection.StreamingPath + "?x=1", connection.StreamingPath + "/"} {
			for _, n := range []int{0, 1, 5000, 70000} {
				if n > 0 && (m == "GET" || m == "OPTIONS" || m == "DELETE") {
					continue
				}
				cases = append(cases, bcase{h: &httpCase{method: m, target: t, hdr: [][2]string{{"X-A", "1"}, {"X-A", "2"}, {"Cookie", "a=b; c=d"}, {"Accept-Encoding", "gzip"}}, body: n}})
			}
		}
	}
}

func pattern(conn, dir, n int) []byte {
	b := make([]byte, n)
	for i := range b {
		b[i] = byte((i*7 + conn*31 + dir*101 + i/251) % 256)
	}
	return b
}

// ---- rig ----

type rig struct {
	server       net.Listener
	front, back  *exec.Cmd
	frontAddr    string
	backAddr     string
	mu           sync.Mutex
	upGot        map[int][]byte // by connection id: what the server read
	httpSeen     map[string]*http.Request
	httpBody     map[string][]byte
	plans        map[int]*plan
	served       int
	connsStarted int
}

func binDir() string {
	wd, _ := os.Getwd()
	return filepath.Join(wd, "bboxbridge-bin")
}

func buildBinaries(dir string) error {
	for _, b := range [][2]string{{"frontend", "./utils/tcpbridge/tcp-bridge-frontend"}, {"backend", "./utils/tcpbridge/tcp-bridge-backend"}} {
		cmd := exec.Command("go", "build", "-o", filepath.Join(dir, b[0]), b[1])
		cmd.Dir = "/repo"
		if r := os.Getenv("VERIF_REPO"); r != "" {
			cmd.Dir = r
		}
		cmd.Env = append(os.Environ(), "GOFLAGS=-mod=mod", "GOPROXY=off", "GOSUMDB=off", "GOTOOLCHAIN=local")
		if out, err := cmd.CombinedOutput(); err != nil {
			return fmt.Errorf("go build %s: %v\n%s", b[1], err, out)
		}
	}
	return nil
}

func freePort() int {
	l, err := net.Listen("tcp", "127.0.0.1:0")
	if err != nil {
		return 0
	}
	defer l.Close()
	return l.Addr().(*net.TCPAddr).Port
}

func startRig() (*rig, error) {
	r := &rig{upGot: map[int][]byte{}, httpSeen: map[string]*http.Request{}, httpBody: map[string][]byte{}, plans: map[int]*plan{}}
	var err error
	// the bridge backend dials "localhost:<port>"
	r.server, err = net.Listen("tcp", "localhost:0")
	if err != nil {
		return nil, err
	}
	go r.serve()
	sp := r.server.Addr().(*net.TCPAddr).Port
	bp, fp := freePort(), freePort()
	r.back = exec.Command(filepath.Join(binDir(), "backend"), fmt.Sprintf("--frontend-port=%d", bp), fmt.Sprintf("--backend-port=%d", sp))
	r.back.SysProcAttr = &syscall.SysProcAttr{Pdeathsig: syscall.SIGKILL}
	r.back.Stderr = io.Discard
	if err := r.back.Start(); err != nil {
		return nil, err
	}
	r.backAddr = fmt.Sprintf("127.0.0.1:%d", bp)
	r.front = exec.Command(filepath.Join(binDir(), "frontend"), fmt.Sprintf("--frontend-port=%d", fp), fmt.Sprintf("--backend=ws://localhost:%d/", bp))
	r.front.SysProcAttr = &syscall.SysProcAttr{Pdeathsig: syscall.SIGKILL}
	r.front.Stderr = io.Discard
	if err := r.front.Start(); err != nil {
		r.stop()
		return nil, err
	}
	r.frontAddr = fmt.Sprintf("127.0.0.1:%d", fp)
	for i := 0; i < 200; i++ {
		c1, e1 := net.DialTimeout("tcp", r.backAddr, time.Second)
		if e1 == nil {
			c1.Close()
		}
		c2, e2 := net.DialTimeout("tcp", r.frontAddr, time.Second)
		if e2 == nil {
			c2.Close()
		}
		if e1 == nil && e2 == nil {
			return r, nil
		}
		time.Sleep(25 * time.Millisecond)
	}
	r.stop()
	return nil, fmt.Errorf("bridge programs did not start listening")
}

func (r *rig) stop() {
	for _, c := range []*exec.Cmd{r.front, r.back} {
		if c != nil && c.Process != nil {
			c.Process.Kill()
			c.Wait()
		}
	}
	if r.server != nil {
		r.server.Close()
	}
}

// serve: the TCP server behind the bridge. A bridged connection announces itself with a
// 4-byte header {0xB1, id, id>>8, 0}; anything else is an HTTP request passed through.
func (r *rig) serve() {
	for {
		c, err := r.server.Accept()
		if err != nil {
			return
		}
		go func(c net.Conn) {
			defer c.Close()
			br := bufio.NewReaderSize(c, 64<<10)
			first, err := br.Peek(1)
			if err != nil {
				return
			}
			if first[0] != 0xB1 {
				for {
					req, err := http.ReadRequest(br)
					if err != nil {
						return
					}
					body, _ := io.ReadAll(req.Body)
					id := req.Header.Get("X-Case")
					r.mu.Lock()
					r.httpSeen[id] = req
					r.httpBody[id] = body
					r.mu.Unlock()
					ans := "answer-for-" + id
					fmt.Fprintf(c, "HTTP/1.1 203 Non-Authoritative\r\nContent-Length: %d\r\nX-Backend-Says: %s\r\nSet-Cookie: k=v\r\n\r\n%s", len(ans), id, ans)
				}
			}
			hdr := make([]byte, 4)
			if _, err := io.ReadFull(br, hdr); err != nil {
				return
			}
			id := int(hdr[1]) | int(hdr[2])<<8
			r.mu.Lock()
			p := r.plans[id]
			r.mu.Unlock()
			if p == nil {
				return
			}
			want := 0
			for _, n := range p.up {
				want += n
			}
			got := make([]byte, 0, want)
			readDone := make(chan struct{})
			go func() {
				defer close(readDone)
				buf := make([]byte, p.rbuf)
				wait := 20 * time.Second
				if p.lateRead > 0 {
					time.Sleep(p.lateRead)
					wait = 60 * time.Second
				}
				for len(got) < want {
					c.SetReadDeadline(time.Now().Add(wait))
					n, err := br.Read(buf)
					got = append(got, buf[:n]...)
					if err != nil {
						return
					}
				}
			}()
			if p.half {
				<-readDone
			}
			if p.lateRead > 0 {
				c.SetWriteDeadline(time.Now().Add(90 * time.Second))
			}
			for k, sz := range p.down {
				c.Write(pattern(id, 1, sz+k)[:sz])
			}
			<-readDone
			r.mu.Lock()
			r.upGot[id] = got
			r.mu.Unlock()
			// the bridge does not propagate closes (recorded finding under C16): linger briefly, then drop
			time.Sleep(50 * time.Millisecond)
		}(c)
	}
}

var theRig *rig
var rigErr string
var connSeq int

func ensureRig() {
	if theRig != nil && theRig.served < 60 {
		return
	}
	if theRig != nil {
		theRig.stop()
		theRig = nil
	}
	var err error
	for i := 0; i < 3; i++ {
		theRig, err = startRig()
		if err == nil {
			rigErr = ""
			return
		}
	}
	rigErr = "the TCP-bridge rig (frontend, backend processes, TCP server) did not come up: " + err.Error()
}

func runPlan(r *rig, id int, p *plan) (down []byte, sentUp []byte, timedOut bool, err error) {
	r.mu.Lock()
	r.plans[id] = p
	r.mu.Unlock()
	c, err := net.DialTimeout("tcp", r.frontAddr, 5*time.Second)
	if err != nil {
		return nil, nil, false, err
	}
	defer c.Close()
	wantDown := 0
	for _, n := range p.down {
		wantDown += n
	}
	done := make(chan struct{})
	go func() {
		defer close(done)
		buf := make([]byte, p.rbuf)
		wait := 20 * time.Second
		if p.lateRead > 0 {
			time.Sleep(p.lateRead)
			wait = 60 * time.Second
		}
		for len(down) < wantDown {
			c.SetReadDeadline(time.Now().Add(wait))
			n, err := c.Read(buf)
			down = append(down, buf[:n]...)
			if err != nil {
				if ne, ok := err.(net.Error); ok && ne.Timeout() {
					timedOut = true
				}
				return
			}
		}
	}()
	c.Write([]byte{0xB1, byte(id), byte(id >> 8), 0})
	if p.lateRead > 0 {
		c.SetWriteDeadline(time.Now().Add(90 * time.Second))
	}
	for k, sz := range p.up {
		d := pattern(id, 0, sz+k)[:sz]
		sentUp = append(sentUp, d...)
		if _, err := c.Write(d); err != nil {
			<-done
			return down, sentUp, timedOut, err
		}
	}
	if p.half {
		c.(*net.TCPConn).CloseWrite()
	}
	<-done
	return down, sentUp, timedOut, nil
}

func (r *rig) waitUp(id, want int) []byte {
	// longer than the server's own read deadline: a stalled upstream is then reported with what did arrive
	for i := 0; i < 9500; i++ {
		r.mu.Lock()
		g, ok := r.upGot[id]
		r.mu.Unlock()
		if ok {
			return g
		}
		time.Sleep(10 * time.Millisecond)
	}
	return nil
}

func firstDiff(a, b []byte) int {
	n := len(a)
	if len(b) < n {
		n = len(b)
	}
	for i := 0; i < n; i++ {
		if a[i] != b[i] {
			return i
		}
	}
	return n
}

func eval(tier string, i int) vx.Exec {
	var x vx.Exec
	ensureRig()
	if theRig == nil {
		x.Infra = rigErr
		return x
	}
	r := theRig
	r.served++
	c := cases[i]
	x.Nontrivial = true
	if c.h != nil {
		return evalHTTP(r, c, i)
	}
	type res struct {
		id           int
		down, sentUp []byte
		timedOut     bool
		err          error
		p            *plan
	}
	ps := []*plan{c.p}
	if c.p.second {
		ps = append(ps, &plan{up: c.p.down, down: c.p.up, rbuf: 7})
	}
	out := make([]res, len(ps))
	var wg sync.WaitGroup
	for k, p := range ps {
		connSeq++
		id := connSeq % 60000
		out[k] = res{id: id, p: p}
		wg.Add(1)
		go func(k int, p *plan) {
			defer wg.Done()
			out[k].down, out[k].sentUp, out[k].timedOut, out[k].err = runPlan(r, out[k].id, p)
		}(k, p)
	}
	wg.Wait()
	var obs []string
	for k, o := range out {
		wantDown := []byte{}
		for j, sz := range o.p.down {
			wantDown = append(wantDown, pattern(o.id, 1, sz+j)[:sz]...)
		}
		up := r.waitUp(o.id, len(o.sentUp))
		obs = append(obs, fmt.Sprintf("conn%d up %d/%d down %d/%d", k, len(up), len(o.sentUp), len(o.down), len(wantDown)))
		if o.timedOut && o.p.lateRead > 0 {
			x.Violations = append(x.Violations, fmt.Sprintf("WEDGED: full-duplex transfer of %s: with both readers starting %v late, nothing arrived at the client for 60 s after %d of %d bytes, although both ends were reading by then", c, o.p.lateRead, len(o.down), len(wantDown)))
			r.served = 1 << 20
			return x
		}
		if o.timedOut && len(o.down) <= len(wantDown) && bytes.Equal(o.down, wantDown[:len(o.down)]) {
			// a correct prefix and then 20 s of silence on a loaded machine: not judged here; stalls and
			// deadlocks of the bridge are decided by harness bridge under the controlled scheduler
			x.Violations = nil
			x.Infra = fmt.Sprintf("no data for 20 s on connection %d of %s (machine overloaded?)", k, c)
			r.served = 1 << 20
			return x
		}
		if !bytes.Equal(o.down, wantDown) {
			x.Violations = append(x.Violations, fmt.Sprintf("DOWNSTREAM: connection %d of %s: the client read %d bytes, the server wrote %d; first difference at %d (err %v)", k, c, len(o.down), len(wantDown), firstDiff(o.down, wantDown), o.err))
		}
		if !bytes.Equal(up, o.sentUp) {
			x.Violations = append(x.Violations, fmt.Sprintf("UPSTREAM: connection %d of %s: the server read %d bytes, the client wrote %d; first difference at %d", k, c, len(up), len(o.sentUp), firstDiff(up, o.sentUp)))
		}
	}
	if len(x.Violations) > 0 {
		// do not let a wedged bridge spoil the following cases
		r.served = 1 << 20
	}
	x.Obs = strings.Join(obs, "; ")
	return x
}

var hopByHop = map[string]bool{"Connection": true, "Keep-Alive": true, "Proxy-Authenticate": true, "Proxy-Authorization": true, "Te": true, "Trailer": true, "Transfer-Encoding": true, "Upgrade": true, "Proxy-Connection": true}

func evalHTTP(r *rig, c bcase, i int) vx.Exec {
	var x vx.Exec
	x.Nontrivial = true
	id := fmt.Sprintf("h%d", i)
	body := pattern(i%200, 2, c.h.body)
	var raw bytes.Buffer
	fmt.Fprintf(&raw, "%s %s HTTP/1.1\r\nHost: app.example:8443\r\nX-Case: %s\r\nConnection: close\r\n", c.h.method, c.h.target, id)
	for _, kv := range c.h.hdr {
		fmt.Fprintf(&raw, "%s: %s\r\n", kv[0], kv[1])
	}
	if c.h.upgrade {
		raw.Reset()
		fmt.Fprintf(&raw, "GET %s HTTP/1.1\r\nHost: app.example:8443\r\nX-Case: %s\r\nConnection: Upgrade\r\nUpgrade: websocket\r\nSec-WebSocket-Version: 13\r\nSec-WebSocket-Key: dGhlIHNhbXBsZSBub25jZQ==\r\n", c.h.target, id)
		for _, kv := range c.h.hdr {
			fmt.Fprintf(&raw, "%s: %s\r\n", kv[0], kv[1])
		}
	}
	if c.h.body > 0 || c.h.method == "POST" || c.h.method == "PUT" {
		fmt.Fprintf(&raw, "Content-Length: %d\r\n", len(body))
	}
	raw.WriteString("\r\n")
	raw.Write(body)
	conn, err := net.DialTimeout("tcp", r.backAddr, 5*time.Second)
	if err != nil {
		x.Infra = "cannot connect to the bridge backend: " + err.Error()
		return x
	}
	defer conn.Close()
	conn.SetDeadline(time.Now().Add(20 * time.Second))
	conn.Write(raw.Bytes())
	resp, err := http.ReadResponse(bufio.NewReader(conn), nil)
	if err != nil {
		x.Violations = append(x.Violations, fmt.Sprintf("PASSTHROUGH: no parsable answer to %s: %v", c, err))
		return x
	}
	rb, _ := io.ReadAll(resp.Body)
	r.mu.Lock()
	seen := r.httpSeen[id]
	sbody := r.httpBody[id]
	r.mu.Unlock()
	x.Obs = fmt.Sprintf("%s -> %d %q", c, resp.StatusCode, rb)
	if seen == nil {
		x.Violations = append(x.Violations, fmt.Sprintf("PASSTHROUGH: %s never reached the backend port (answer %d)", c, resp.StatusCode))
		return x
	}
	if seen.Method != c.h.method || seen.RequestURI != c.h.target || seen.Host != "app.example:8443" {
		x.Violations = append(x.Violations, fmt.Sprintf("PASSTHROUGH: the backend port received %s %s (Host %s), the client sent %s %s (Host app.example:8443)", seen.Method, seen.RequestURI, seen.Host, c.h.method, c.h.target))
	}
	want := http.Header{}
	for _, kv := range c.h.hdr {
		want.Add(kv[0], kv[1])
	}
	for k, v := range want {
		if hopByHop[k] {
			continue
		}
		if strings.Join(seen.Header[k], "|") != strings.Join(v, "|") {
			x.Violations = append(x.Violations, fmt.Sprintf("PASSTHROUGH: header %s reached the backend port as %q, the client sent %q (%s)", k, seen.Header[k], v, c))
		}
	}
	if c.h.upgrade && !strings.EqualFold(seen.Header.Get("Upgrade"), "websocket") {
		x.Violations = append(x.Violations, fmt.Sprintf("PASSTHROUGH: a websocket handshake for %s reached the backend port without its Upgrade field (%v)", c.h.target, seen.Header))
	}
	if !bytes.Equal(sbody, body) {
		x.Violations = append(x.Violations, fmt.Sprintf("PASSTHROUGH: the backend port received a body of %d bytes, the client sent %d (first difference at %d) (%s)", len(sbody), len(body), firstDiff(sbody, body), c))
	}
	if resp.StatusCode != 203 || string(rb) != "answer-for-"+id || resp.Header.Get("X-Backend-Says") != id || resp.Header.Get("Set-Cookie") != "k=v" {
		x.Violations = append(x.Violations, fmt.Sprintf("PASSTHROUGH: the answer of the backend port came back as %d %q %v (%s)", resp.StatusCode, rb, resp.Header, c))
	}
	return x
}

func main() {
	flag.Parse()
	en := &vx.Enum{Property: *prop, Name: "bboxbridge-" + strings.ToLower(*prop),
		Rule: "cases = write/read plans (two writes per direction over sizes {0,1,2,1024,1025,32768,32769,70000} x read buffers {1,7,4096,65536}; quick: two thirds of the size pairs) alone and with a second, mirrored connection at the same time; half-closing clients with responses up to 1 MiB; (thorough: 8 MiB each way); + plain HTTP requests (5 methods x 4 targets x 4 body sizes) sent to the bridge backend; each goes through the real tcp-bridge-frontend and tcp-bridge-backend processes over loopback; all cases are distinct and non-trivial",
		Init: func(tier string) {
			build(tier)
			isWorker := flag.Lookup("worker").Value.String() == "true"
			if !isWorker {
				os.MkdirAll(binDir(), 0755)
				if err := buildBinaries(binDir()); err != nil {
					fmt.Fprintln(os.Stderr, err)
					os.Exit(3)
				}
			}
		},
		Total:    func(string) int { return len(cases) },
		Eval:     eval,
		Describe: func(_ string, i int) string { return cases[i].String() },
	}
	defer func() {
		if theRig != nil {
			theRig.stop()
		}
	}()
	vx.EnumMain(en)
}
