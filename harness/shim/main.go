// Harness shim: the websocket shim (agent/websockets: Proxy, createShimChannel,
// Connection) with the in-memory gorilla fake as the backend websocket peer.
//
//	-prop C11: message sequences x batchings x poll placements, both directions; FIFO reference model
//	-prop C12: call sequences (explorer-chosen) with valid/unknown/closed/malformed arguments,
//	           and concurrent call pairs from representative states; status + no-crash + no-wedge oracle
package main

import (
	"bytes"
	"context"
	"encoding/base64"
	"encoding/json"
	"flag"
	"fmt"
	"net/http"
	"net/http/httptest"
	"net/url"
	"reflect"
	"strconv"
	"strings"
	"time"
	"unsafe"

	"github.com/google/inverting-proxy/agent/metrics"
	"github.com/google/inverting-proxy/agent/websockets"
	"github.com/google/inverting-proxy/zz_verif/vs"
	"github.com/google/inverting-proxy/zz_verif/vtime"
	"github.com/google/inverting-proxy/zz_verif/vws"
	"github.com/google/inverting-proxy/zz_verif/vx"
)

var prop = flag.String("prop", "C12", "C11|C12")

type world struct {
	h       http.Handler
	ws      *vws.World
	servers []*vws.Conn // backend ends, in dial order
	clients []*vws.Conn // agent ends
	wrapped int
	// writeCap > 0: the backend's socket buffers hold this many unread client messages
	writeCap int
}

func newWorld(injection bool) *world {
	w := &world{}
	w.ws = vws.W()
	w.ws.OnDial = func(u *url.URL, h http.Header) (*vws.Conn, error) {
		if strings.Contains(u.Path, "fail") {
			return nil, fmt.Errorf("dial tcp: connection refused")
		}
		if strings.Contains(u.Path, "redir") {
			// the backend answers the handshake with a redirect instead of 101
			code, _ := strconv.Atoi(u.Query().Get("code"))
			if code == 0 {
				code = 302
			}
			req, _ := http.NewRequest("GET", "http://backend.test:8080"+u.RequestURI(), nil)
			return nil, &vws.BadHandshake{Resp: &http.Response{StatusCode: code, Header: http.Header{"Location": {u.Query().Get("to")}}, Body: http.NoBody, Request: req}}
		}
		c, s := vws.Pair("agent-ws"+u.Path, "backend-ws"+u.Path)
		if w.writeCap > 0 {
			c.SetWriteCap(w.writeCap)
		}
		w.clients = append(w.clients, c)
		w.servers = append(w.servers, s)
		return c, nil
	}
	wrapped := http.HandlerFunc(func(rw http.ResponseWriter, r *http.Request) { w.wrapped++; rw.WriteHeader(204) })
	h, err := websockets.Proxy(context.Background(), wrapped, "backend.test:8080", "shim", false, injection,
		func(h http.Handler, _ *metrics.MetricHandler) http.Handler { return h }, nil)
	if err != nil {
		panic(err)
	}
	w.h = h
	return w
}

type callResult struct {
	op     string
	status int
	body   string
	done   bool
}

func (w *world) call(action, body string, hdr map[string]string) *callResult {
	r := httptest.NewRequest("POST", "http://client.example/shim/"+action, strings.NewReader(body))
	r.Header.Set("X-Websocket-Shim-Version", "1")
	for k, v := range hdr {
		r.Header.Set(k, v)
	}
	rec := httptest.NewRecorder()
	res := &callResult{op: action + " " + clip(body)}
	w.h.ServeHTTP(rec, r)
	res.status, res.body, res.done = rec.Code, rec.Body.String(), true
	return res
}

func clip(s string) string {
	if len(s) > 40 {
		return fmt.Sprintf("%s…(%d)", s[:24], len(s))
	}
	return s
}

func base(r *vs.Result, x *vx.Exec) {
	for _, p := range r.Panics {
		x.Violations = append(x.Violations, "PANIC: "+p)
	}
	for _, rc := range r.Races {
		x.Violations = append(x.Violations, fmt.Sprintf("RACE: unsynchronised concurrent use of %s by %s and %s", rc.Object, rc.A, rc.B))
	}
}

// ---------------- C11 ----------------

type msg struct {
	binary bool
	data   []byte
}

func (m msg) wire() interface{} {
	if m.binary {
		return []string{base64.StdEncoding.EncodeToString(m.data)}
	}
	return string(m.data)
}

func allBytes() []byte {
	b := make([]byte, 256)
	for i := range b {
		b[i] = byte(i)
	}
	return b
}

func alphabetC11(th bool) []msg {
	a := []msg{
		{false, []byte("")}, {false, []byte("a")}, {false, []byte("héllo \U0001F600")}, {false, []byte(`{"resource":{"headers":{"X-Own":"1"}},"k":[1,2]}`)},
		{false, []byte(`{"a":1}`)}, {false, []byte(`[1,2]`)}, {false, []byte("<>& ")},
		{true, []byte{}}, {true, []byte{0x00, 0xff, 0x80}}, {true, allBytes()},
	}
	if th {
		a = append(a, msg{false, bytes.Repeat([]byte("x"), 1<<20)}, msg{true, bytes.Repeat([]byte{0xfe}, 1<<20)})
	}
	return a
}

// c11Up: client -> server, one sequence, one batching into data posts.
func c11Up(name string, seq []msg, batches []int, injection bool, pb int) vx.Scenario {
	return vx.Scenario{Name: name, PB: pb, MaxSteps: 20000, MaxTime: time.Minute,
		Setup: func(s *vs.Sched) func(*vs.Result) vx.Exec {
			w := newWorld(injection)
			var results []*callResult
			// every data post carries request headers of its own: what is injected into a message must
			// come from the post that carried it
			hdrOf := make([]map[string]string, len(seq))
			s.Thread("client", func() {
				res := w.call("open", "ws://client.example/sock", nil)
				results = append(results, res)
				var o struct {
					ID string `json:"id"`
				}
				json.Unmarshal([]byte(res.body), &o)
				i := 0
				for bi, n := range batches {
					hdr := map[string]string{"X-Inj": fmt.Sprintf("v%d", bi+1), "X-Own": "client"}
					if bi%2 == 0 {
						hdr[fmt.Sprintf("X-Only-%d", bi)] = "once"
					}
					var post []map[string]interface{}
					for k := 0; k < n; k++ {
						post = append(post, map[string]interface{}{"id": o.ID, "msg": seq[i].wire()})
						hdrOf[i] = hdr
						i++
					}
					b, _ := json.Marshal(post)
					results = append(results, w.call("data", string(b), hdr))
				}
			})
			s.DaemonThread("backend", func() {
				vs.Wait("backend: connection", nil, func() bool { return len(w.servers) > 0 })
				for {
					if _, _, err := w.servers[0].ReadMessage(); err != nil {
						return
					}
				}
			})
			return func(r *vs.Result) vx.Exec {
				var x vx.Exec
				base(r, &x)
				for _, res := range results {
					if !res.done || res.status != 200 {
						x.Violations = append(x.Violations, fmt.Sprintf("CALL: %s answered %d", res.op, res.status))
					}
				}
				for _, b := range r.Blocked {
					if b.Thread == "client" {
						x.Violations = append(x.Violations, "WEDGE: client call never returned: "+b.Op)
					}
				}
				if len(w.clients) != 1 {
					return x
				}
				got := w.clients[0].Sent
				x.Obs = fmt.Sprintf("sent=%d got=%d", len(seq), len(got))
				if len(x.Violations) > 0 {
					return x
				}
				if len(got) != len(seq) {
					x.Violations = append(x.Violations, fmt.Sprintf("COUNT: client sent %d messages, backend websocket received %d", len(seq), len(got)))
					return x
				}
				for i, m := range seq {
					wantType := vws.TextMessage
					if m.binary {
						wantType = vws.BinaryMessage
					}
					g := got[i]
					if g.Type != wantType {
						x.Violations = append(x.Violations, fmt.Sprintf("TYPE: message %d arrived with type %d, sent as %d", i, g.Type, wantType))
						continue
					}
					if bytes.Equal(g.Data, m.data) {
						continue
					}
					if injection && !m.binary && injectable(m.data) {
						if why := injectedOK(m.data, g.Data, hdrOf[i]); why != "" {
							x.Violations = append(x.Violations, fmt.Sprintf("INJECT: message %d: %s (sent %q got %q)", i, why, clip(string(m.data)), clip(string(g.Data))))
						}
						continue
					}
					x.Violations = append(x.Violations, fmt.Sprintf("PAYLOAD: message %d changed (or out of order): sent %q, backend received %q", i, clip(string(m.data)), clip(string(g.Data))))
				}
				return x
			}
		}}
}

func injectable(d []byte) bool {
	var o map[string]interface{}
	if json.Unmarshal(d, &o) != nil {
		return false
	}
	res, ok := o["resource"].(map[string]interface{})
	if !ok {
		return false
	}
	_, ok = res["headers"].(map[string]interface{})
	return ok
}

// injectedOK: got == sent with exactly the missing request-header keys added, as JSON values.
func injectedOK(sent, got []byte, reqHdr map[string]string) string {
	var s, g map[string]interface{}
	if json.Unmarshal(sent, &s) != nil || json.Unmarshal(got, &g) != nil {
		return "not JSON any more"
	}
	sh := s["resource"].(map[string]interface{})["headers"].(map[string]interface{})
	gr, ok := g["resource"].(map[string]interface{})
	if !ok {
		return "resource object lost"
	}
	gh, ok := gr["headers"].(map[string]interface{})
	if !ok {
		return "resource.headers lost"
	}
	for k, v := range sh {
		if !reflect.DeepEqual(gh[k], v) {
			return fmt.Sprintf("existing header %q was changed to %v", k, gh[k])
		}
	}
	for k, v := range gh {
		if _, had := sh[k]; had {
			continue
		}
		// added keys must be request headers with their value
		found := false
		for hk, hv := range reqHdr {
			if http.CanonicalHeaderKey(hk) == http.CanonicalHeaderKey(k) && v == hv {
				found = true
			}
		}
		if !found && !isRequestHeader(k) {
			return fmt.Sprintf("key %q=%v was added but is not a request header", k, v)
		}
	}
	// everything else identical
	delete(s["resource"].(map[string]interface{}), "headers")
	delete(gr, "headers")
	if !reflect.DeepEqual(s, g) {
		return "parts other than resource.headers changed"
	}
	return ""
}

func isRequestHeader(k string) bool {
	switch http.CanonicalHeaderKey(k) {
	case "X-Websocket-Shim-Version", "Content-Length", "Content-Type", "Host", "User-Agent":
		return true
	}
	return false
}

// c11Down: server -> client, polls placed after given counts of backend sends.
func c11Down(name string, seq []msg, pollAfter []int, pb int) vx.Scenario {
	return c11DownClose(name, seq, pollAfter, false, pb)
}

// c11DownClose: with thenClose the backend closes its end after the last message
// and the client only starts polling once the agent has noticed the close: what
// was sent before the close must still be delivered.
func c11DownClose(name string, seq []msg, pollAfter []int, thenClose bool, pb int) vx.Scenario {
	return c11DownCloseData(name, seq, pollAfter, thenClose, false, pb)
}

// c11DownCloseData: with dataFirst the client posts a message to the (closed) session before its first
// poll after the close: the post is refused, the queued server messages are still delivered.
func c11DownCloseData(name string, seq []msg, pollAfter []int, thenClose, dataFirst bool, pb int) vx.Scenario {
	return vx.Scenario{Name: name, PB: pb, MaxSteps: 20000, MaxTime: 5 * time.Minute,
		Setup: func(s *vs.Sched) func(*vs.Result) vx.Exec {
			w := newWorld(false)
			var polled []interface{}
			var statuses []int
			sent := 0
			s.Thread("client", func() {
				res := w.call("open", "ws://client.example/sock", nil)
				var o struct {
					ID string `json:"id"`
				}
				json.Unmarshal([]byte(res.body), &o)
				body := fmt.Sprintf(`{"id":%q}`, o.ID)
				poll := func() {
					r := w.call("poll", body, nil)
					statuses = append(statuses, r.status)
					if r.status == 200 {
						var ms []interface{}
						json.Unmarshal([]byte(r.body), &ms)
						polled = append(polled, ms...)
					}
				}
				for _, n := range pollAfter {
					n := n
					vs.Wait(fmt.Sprintf("client: backend has sent %d", n), unsafe.Pointer(w), func() bool { return sent >= n })
					if thenClose && n >= len(seq) {
						vs.Wait("client: backend has closed", unsafe.Pointer(w), func() bool { return sent > len(seq) })
						vs.Quiesce()
						if dataFirst {
							b, _ := json.Marshal([]map[string]interface{}{{"id": o.ID, "msg": "too late"}})
							w.call("data", string(b), nil)
							vs.Quiesce()
						}
					}
					poll()
				}
				// keep polling until everything has arrived (one poll outstanding at a time)
				for len(polled) < len(seq) && len(statuses) < len(seq)+len(pollAfter)+4 {
					poll()
				}
			})
			s.Thread("backend", func() {
				vs.Wait("backend: connection", nil, func() bool { return len(w.servers) > 0 })
				for _, m := range seq {
					t := vws.TextMessage
					if m.binary {
						t = vws.BinaryMessage
					}
					w.servers[0].WriteMessage(t, m.data)
					vs.Touch(unsafe.Pointer(w))
					sent++
				}
				if thenClose {
					w.servers[0].Close()
					vs.Touch(unsafe.Pointer(w))
					sent++
				}
			})
			return func(r *vs.Result) vx.Exec {
				var x vx.Exec
				base(r, &x)
				for _, b := range r.Blocked {
					if b.Thread == "client" || b.Thread == "backend" {
						x.Violations = append(x.Violations, fmt.Sprintf("WEDGE: %s never finished: %s", b.Thread, b.Op))
					}
				}
				x.Obs = fmt.Sprintf("sent=%d polled=%d statuses=%v", len(seq), len(polled), statuses)
				if len(x.Violations) > 0 {
					return x
				}
				for _, st := range statuses {
					if st != 200 && st != 408 {
						x.Violations = append(x.Violations, fmt.Sprintf("STATUS: poll answered %d", st))
					}
				}
				if len(polled) != len(seq) {
					x.Violations = append(x.Violations, fmt.Sprintf("COUNT: backend sent %d messages, polls delivered %d", len(seq), len(polled)))
					return x
				}
				for i, m := range seq {
					switch v := polled[i].(type) {
					case string:
						if m.binary || v != string(m.data) {
							x.Violations = append(x.Violations, fmt.Sprintf("PAYLOAD: server message %d arrived as text %q, sent %v %q", i, clip(v), m.binary, clip(string(m.data))))
						}
					case []interface{}:
						var d []byte
						if len(v) == 1 {
							if sv, ok := v[0].(string); ok {
								d, _ = base64.StdEncoding.DecodeString(sv)
							}
						}
						if !m.binary || !bytes.Equal(d, m.data) {
							x.Violations = append(x.Violations, fmt.Sprintf("PAYLOAD: server message %d arrived as binary (%d bytes), sent binary=%v (%d bytes)", i, len(d), m.binary, len(m.data)))
						}
					default:
						x.Violations = append(x.Violations, fmt.Sprintf("PAYLOAD: server message %d arrived as %T", i, v))
					}
				}
				return x
			}
		}}
}

// c11Slow: a backend that stops reading for a while. The socket buffers between agent and backend hold
// capN messages; the client posts n messages (one data post each) while the backend is not reading, so
// that the writing goroutine is held in WriteMessage and the 10-message queue behind it fills up, then
// (thenClose) closes the session. After stall the backend reads again until its connection ends. Every
// call must be answered 200, the backend must receive the n messages in order, and after a close it
// must see the close frame behind the last message.
func c11Slow(name string, n, capN int, stall time.Duration, thenClose bool, pb int) vx.Scenario {
	return vx.Scenario{Name: name, PB: pb, MaxSteps: 40000, MaxTime: 5 * time.Minute,
		Setup: func(s *vs.Sched) func(*vs.Result) vx.Exec {
			w := newWorld(false)
			w.writeCap = capN
			var results []*callResult
			var got []string
			var endErr error
			ended := false
			s.Thread("client", func() {
				res := w.call("open", "ws://client.example/sock", nil)
				results = append(results, res)
				var o struct {
					ID string `json:"id"`
				}
				json.Unmarshal([]byte(res.body), &o)
				for i := 0; i < n; i++ {
					b, _ := json.Marshal([]map[string]interface{}{{"id": o.ID, "msg": fmt.Sprintf("m%02d", i)}})
					results = append(results, w.call("data", string(b), nil))
				}
				if thenClose {
					results = append(results, w.call("close", fmt.Sprintf(`{"id":%q}`, o.ID), nil))
				}
			})
			s.DaemonThread("backend", func() {
				vs.Wait("backend: connection", nil, func() bool { return len(w.servers) > 0 })
				vtime.Sleep(stall)
				for {
					_, d, err := w.servers[0].ReadMessage()
					if err != nil {
						endErr, ended = err, true
						return
					}
					got = append(got, string(d))
				}
			})
			return func(r *vs.Result) vx.Exec {
				var x vx.Exec
				base(r, &x)
				for _, res := range results {
					if !res.done || res.status != 200 {
						x.Violations = append(x.Violations, fmt.Sprintf("CALL: %s answered %d %s (the backend was only slow)", res.op, res.status, clip(res.body)))
					}
				}
				for _, b := range r.Blocked {
					if b.Thread == "client" {
						x.Violations = append(x.Violations, "WEDGE: client call never returned: "+b.Op)
					}
				}
				x.Obs = fmt.Sprintf("sent=%d got=%d ended=%v", n, len(got), ended)
				if len(x.Violations) > 0 {
					return x
				}
				for i := 0; i < n || i < len(got); i++ {
					want, have := "(nothing)", "(nothing)"
					if i < n {
						want = fmt.Sprintf("m%02d", i)
					}
					if i < len(got) {
						have = got[i]
					}
					if want != have {
						x.Violations = append(x.Violations, fmt.Sprintf("SLOW-BACKEND: the client's %d messages were all accepted, the backend (which read again after %v) received %d; position %d: sent %s, received %s", n, stall, len(got), i, want, have))
						return x
					}
				}
				if thenClose {
					ce, _ := endErr.(*vws.CloseError)
					if !ended || ce == nil || ce.Code != vws.CloseNormalClosure {
						x.Violations = append(x.Violations, fmt.Sprintf("SLOW-BACKEND-CLOSE: the close call was answered 200 but the backend websocket did not see the close frame behind the last message (backend read ended: %v, error %v)", ended, endErr))
					}
				}
				return x
			}
		}}
}

func c11SlowScenarios(th bool) []vx.Scenario {
	var out []vx.Scenario
	// capN in the socket, one in the writer's hand, ten in the queue: around that mark, with and without a close
	ns := []int{12, 13, 14}
	pb := 1
	if th {
		ns = []int{3, 11, 12, 13, 14, 15, 24}
		pb = 2
	}
	for _, n := range ns {
		for _, cl := range []bool{true, false} {
			p := pb
			if n > 13 && !th {
				p = 0
			}
			out = append(out, c11Slow(fmt.Sprintf("c11/slow-backend/n%d/cap2/stall15s/close=%v", n, cl), n, 2, 15*time.Second, cl, p))
		}
	}
	out = append(out, c11Slow("c11/slow-backend/n13/cap2/stall45s/close=true", 13, 2, 45*time.Second, true, 0))
	if th {
		out = append(out, c11Slow("c11/slow-backend/n13/cap1/stall2m/close=true", 13, 1, 2*time.Minute, true, 1))
	}
	return out
}

func compositions(n int) [][]int {
	if n == 0 {
		return [][]int{{}}
	}
	var out [][]int
	for first := 1; first <= n; first++ {
		for _, rest := range compositions(n - first) {
			out = append(out, append([]int{first}, rest...))
		}
	}
	return out
}

func c11Scenarios(th bool) []vx.Scenario {
	var out []vx.Scenario
	al := alphabetC11(th)
	pb := 1
	maxLen := 2
	if th {
		pb = 2
		maxLen = 3
	}
	// all sequences up to maxLen, every batching; schedule exploration on the short ones
	var rec func(seq []msg, idx []int)
	rec = func(seq []msg, idx []int) {
		if len(seq) > 0 {
			for _, comp := range compositions(len(seq)) {
				p := 0
				if len(seq) <= 2 {
					p = pb
				}
				out = append(out, c11Up(fmt.Sprintf("c11/up/%v/%v", idx, comp), append([]msg{}, seq...), comp, false, p))
			}
			// server->client with polls at every position
			for pa := 0; pa <= len(seq); pa++ {
				p := 0
				if len(seq) <= 2 {
					p = pb
				}
				out = append(out, c11Down(fmt.Sprintf("c11/down/%v/poll@%d", idx, pa), append([]msg{}, seq...), []int{pa}, p))
			}
		}
		if len(seq) == maxLen {
			return
		}
		for i, m := range al {
			if len(seq) >= 1 && !th && (i+idx[0])%3 != 0 {
				continue // quick: a third of the pairs, every member still occurs in both positions
			}
			rec(append(seq, m), append(append([]int{}, idx...), i))
		}
	}
	rec(nil, nil)
	// a backlog of several MiB between two polls: order and content survive
	{
		big := make([]msg, 7)
		for i := range big {
			d := bytes.Repeat([]byte{byte('a' + i)}, 1<<20)
			big[i] = msg{i%2 == 1, d}
		}
		out = append(out, c11Down("c11/down/backlog-7MiB/poll-at-end", big, []int{7}, 0))
		out = append(out, c11Down("c11/down/backlog-7MiB/poll-early", big, []int{0, 5}, 0))
	}
	// the backend closes right after its last message; the client polls afterwards
	for i, m := range al {
		out = append(out, c11DownClose(fmt.Sprintf("c11/down-then-close/[%d]", i), []msg{m}, []int{1}, true, pb))
		out = append(out, c11DownClose(fmt.Sprintf("c11/down-then-close/[%d 0]/poll@1", i), []msg{m, al[0]}, []int{1}, true, pb))
		out = append(out, c11DownClose(fmt.Sprintf("c11/down-then-close/[0 %d]/poll@2", i), []msg{al[0], m}, []int{2}, true, pb))
		out = append(out, c11DownCloseData(fmt.Sprintf("c11/down-then-close/[0 %d]/data-then-poll@2", i), []msg{al[0], m}, []int{2}, true, true, 0))
	}
	// sessions opened at the same time: each side only ever gets its own session's messages
	for _, pp := range [][]string{{"a", "b"}, {"a", "fail1"}, {"a", "b", "c"}} {
		p := 2
		if len(pp) > 2 {
			p = 1
		}
		out = append(out, c12Opens(pp, p))
	}
	// injection enabled: every alphabet member alone and in pairs with an injectable one
	for i, m := range al {
		out = append(out, c11Up(fmt.Sprintf("c11/inject/[%d]", i), []msg{m}, []int{1}, true, 0))
		out = append(out, c11Up(fmt.Sprintf("c11/inject/[3 %d]", i), []msg{al[3], m}, []int{2}, true, 0))
		out = append(out, c11Up(fmt.Sprintf("c11/inject/[3 %d 3]/three-posts", i), []msg{al[3], m, al[3]}, []int{1, 1, 1}, true, 0))
	}
	// more than the 10-slot queues
	for _, n := range []int{11, 12, 25} {
		long := make([]msg, n)
		for i := range long {
			long[i] = msg{i%3 == 0, []byte{byte('a' + i)}}
		}
		out = append(out, c11Up(fmt.Sprintf("c11/up/long%d/one-post", n), long, []int{n}, false, 1))
		ones := make([]int, n)
		for i := range ones {
			ones[i] = 1
		}
		out = append(out, c11Up(fmt.Sprintf("c11/up/long%d/posts-of-1", n), long, ones, false, 0))
		out = append(out, c11Down(fmt.Sprintf("c11/down/long%d/poll-at-end", n), long, []int{n}, 1))
		out = append(out, c11Down(fmt.Sprintf("c11/down/long%d/poll-early", n), long, []int{0, 1}, 1))
	}
	out = append(out, c11SlowScenarios(th)...)
	return out
}

// ---------------- C12 ----------------

// model is the reference state of the shim as the property describes it.
type session struct {
	open          bool // known to the shim
	clientClosed  bool
	backendClosed bool
	queue         int // server messages not yet polled
}

type c12op struct {
	name   string
	action string // open, data, poll, close, bsend, bclose
	id     string // "valid" -> session 1, or a literal
	body   string // "" = well formed
}

func c12Alphabet() []c12op {
	return []c12op{
		{name: "open", action: "open"},
		{name: "data(1)", action: "data", id: "1"},
		{name: "data(99)", action: "data", id: "99"},
		{name: "data(notjson)", action: "data", body: "{nope"},
		{name: "data(wrongtype)", action: "data", body: `{"id":"1"}`},
		{name: "data(empty)", action: "data", body: " "},
		{name: "data(badmsg)", action: "data", body: `[{"id":"1","msg":42}]`},
		{name: "poll(1)", action: "poll", id: "1"},
		{name: "poll(x)", action: "poll", id: "x"},
		{name: "poll(noid)", action: "poll", id: ""},
		{name: "poll(notjson)", action: "poll", body: "[]]"},
		{name: "close(1)", action: "close", id: "1"},
		{name: "close(99)", action: "close", id: "99"},
		{name: "close(wrongtype)", action: "close", body: `[1]`},
		{name: "bsend", action: "bsend"},
		{name: "bclose", action: "bclose"},
	}
}

type c12step struct {
	op     c12op
	res    *callResult
	expect []int
	why    string
}

// c12Seq: the explorer picks `depth` operations one after the other; each runs to quiescence.
func c12Seq(depth int, first []int) vx.Scenario {
	al := c12Alphabet()
	name := fmt.Sprintf("c12/seq/depth%d/first%v", depth, first)
	return vx.Scenario{Name: name, PB: 0, MaxSteps: 20000, MaxTime: 10 * time.Minute,
		Setup: func(s *vs.Sched) func(*vs.Result) vx.Exec {
			w := newWorld(false)
			var steps []*c12step
			sess := &session{}
			sawCloseAtBackend := false
			s.Thread("driver", func() {
				for d := 0; d < depth; d++ {
					var k int
					if d < len(first) {
						k = first[d]
					} else {
						k = vs.Choose(len(al), "op")
					}
					op := al[k]
					st := &c12step{op: op}
					steps = append(steps, st)
					body := op.body
					switch op.action {
					case "open":
						st.res = w.call("open", "ws://client.example/s", nil)
						st.expect = []int{200}
						if !sess.open && !sess.clientClosed && len(w.servers) == 1 {
							sess.open = true
						}
					case "data":
						if body == "" {
							body = fmt.Sprintf(`[{"id":%q,"msg":"m"}]`, op.id)
						}
						st.res = w.call("data", body, nil)
						switch {
						case op.body != "" && op.name != "data(badmsg)":
							st.expect, st.why = []int{400}, "malformed body"
						case op.name == "data(badmsg)":
							st.expect, st.why = []int{400}, "non-string message for session 1"
							if !(sess.open && !sess.clientClosed) {
								st.why = "unknown session"
							}
						case op.id == "1" && sess.open && !sess.clientClosed && !sess.backendClosed:
							st.expect = []int{200}
						default:
							st.expect, st.why = []int{400}, "unknown or closed session"
						}
					case "poll":
						if body == "" {
							body = fmt.Sprintf(`{"id":%q}`, op.id)
						}
						st.res = w.call("poll", body, nil)
						switch {
						case op.body != "":
							st.expect, st.why = []int{400}, "malformed body"
						case op.id == "1" && sess.open && !sess.clientClosed:
							if sess.queue > 0 {
								st.expect, st.why = []int{200}, "queued server messages"
								sess.queue = 0
							} else if sess.backendClosed {
								st.expect, st.why = []int{400}, "backend closed and drained"
								sess.open = false
							} else {
								st.expect, st.why = []int{408}, "nothing to deliver"
							}
						case op.id == "1" && sess.clientClosed && sess.open:
							// closed by the client: the session is gone
							st.expect, st.why = []int{400}, "closed session"
						default:
							st.expect, st.why = []int{400}, "unknown session"
						}
					case "close":
						if body == "" {
							body = fmt.Sprintf(`{"id":%q}`, op.id)
						}
						st.res = w.call("close", body, nil)
						switch {
						case op.body != "":
							st.expect, st.why = []int{400}, "malformed body"
						case op.id == "1" && sess.open && !sess.clientClosed:
							st.expect = []int{200}
							sess.clientClosed = true
						default:
							st.expect, st.why = []int{400}, "unknown or closed session"
						}
					case "bsend":
						if len(w.servers) > 0 && !w.servers[0].Closed() && sess.open && !sess.backendClosed {
							if err := w.servers[0].WriteMessage(vws.TextMessage, []byte("srv")); err == nil && !sess.clientClosed {
								sess.queue++
							}
						}
					case "bclose":
						if len(w.servers) > 0 && !w.servers[0].Closed() {
							w.servers[0].Close()
							if sess.open {
								sess.backendClosed = true
							}
						}
					}
					vs.Quiesce()
				}
			})
			s.DaemonThread("backend-reader", func() {
				vs.Wait("backend: connection", nil, func() bool { return len(w.servers) > 0 })
				for {
					_, _, err := w.servers[0].ReadMessage()
					if err != nil {
						vs.Touch(unsafe.Pointer(w))
						sawCloseAtBackend = true
						return
					}
				}
			})
			return func(r *vs.Result) vx.Exec {
				var x vx.Exec
				base(r, &x)
				var names []string
				for _, st := range steps {
					names = append(names, st.op.name)
				}
				seq := strings.Join(names, ", ")
				for i, st := range steps {
					if st.res == nil {
						continue
					}
					if !st.res.done {
						if len(r.Panics) == 0 {
							x.Violations = append(x.Violations, fmt.Sprintf("WEDGE: call %d (%s) of [%s] never got an answer", i+1, st.op.name, seq))
						}
						continue
					}
					ok := false
					for _, e := range st.expect {
						if st.res.status == e {
							ok = true
						}
					}
					if !ok {
						x.Violations = append(x.Violations, fmt.Sprintf("STATUS: call %d (%s) of [%s] answered %d, expected %v (%s)", i+1, st.op.name, seq, st.res.status, st.expect, st.why))
					}
				}
				for _, b := range r.Blocked {
					if b.Thread == "driver" && len(r.Panics) == 0 {
						x.Violations = append(x.Violations, fmt.Sprintf("WEDGE: sequence [%s] left the caller blocked in %s", seq, b.Op))
					}
				}
				if sess.clientClosed && len(w.servers) > 0 && !sawCloseAtBackend && len(r.Panics) == 0 {
					x.Violations = append(x.Violations, fmt.Sprintf("NOCLOSE: session closed by the client in [%s] but the backend websocket did not observe a close", seq))
				}
				x.Obs = seq + " -> " + statuses(steps)
				return x
			}
		}}
}

func statuses(steps []*c12step) string {
	var p []string
	for _, st := range steps {
		if st.res == nil {
			p = append(p, "-")
		} else {
			p = append(p, fmt.Sprint(st.res.status))
		}
	}
	return strings.Join(p, ",")
}

// c12Pair: two (or three) calls on the same session concurrently, after a prelude.
func c12Pair(prelude []string, calls []string, pb int) vx.Scenario {
	name := fmt.Sprintf("c12/conc/%v/%v", prelude, calls)
	return vx.Scenario{Name: name, PB: pb, MaxSteps: 20000, MaxTime: 10 * time.Minute,
		Setup: func(s *vs.Sched) func(*vs.Result) vx.Exec {
			w := newWorld(false)
			ready := false
			results := make([]*callResult, len(calls))
			do := func(c string) *callResult {
				switch c {
				case "data":
					return w.call("data", `[{"id":"1","msg":"m"}]`, nil)
				case "data12":
					var post []map[string]interface{}
					for k := 0; k < 12; k++ {
						post = append(post, map[string]interface{}{"id": "1", "msg": fmt.Sprint(k)})
					}
					b, _ := json.Marshal(post)
					return w.call("data", string(b), nil)
				case "poll":
					return w.call("poll", `{"id":"1"}`, nil)
				case "close":
					return w.call("close", `{"id":"1"}`, nil)
				case "bsend":
					if len(w.servers) > 0 {
						w.servers[0].WriteMessage(vws.TextMessage, []byte("srv"))
					}
				case "bclose":
					if len(w.servers) > 0 {
						w.servers[0].Close()
					}
				}
				return &callResult{op: c, status: 200, done: true}
			}
			s.Thread("prelude", func() {
				w.call("open", "ws://client.example/s", nil)
				for _, p := range prelude {
					do(p)
					vs.Quiesce()
				}
				vs.Touch(unsafe.Pointer(w))
				ready = true
			})
			for i, c := range calls {
				i, c := i, c
				s.Thread(fmt.Sprintf("call%d-%s", i, c), func() {
					vs.Wait("prelude done", unsafe.Pointer(w), func() bool { return ready })
					results[i] = &callResult{op: c}
					r := do(c)
					results[i] = r
				})
			}
			s.DaemonThread("backend-reader", func() {
				vs.Wait("backend: connection", nil, func() bool { return len(w.servers) > 0 })
				for {
					if _, _, err := w.servers[0].ReadMessage(); err != nil {
						return
					}
				}
			})
			return func(r *vs.Result) vx.Exec {
				var x vx.Exec
				base(r, &x)
				var obs []string
				for i, res := range results {
					if res == nil || !res.done {
						if len(r.Panics) == 0 {
							x.Violations = append(x.Violations, fmt.Sprintf("WEDGE: concurrent call %s (with %v after %v) never got an answer; blocked: %s", calls[i], calls, prelude, blockedList(r)))
						}
						obs = append(obs, calls[i]+":-")
						continue
					}
					obs = append(obs, fmt.Sprintf("%s:%d", calls[i], res.status))
					switch res.status {
					case 200, 400, 408, 500:
					default:
						x.Violations = append(x.Violations, fmt.Sprintf("STATUS: concurrent call %s answered %d", calls[i], res.status))
					}
				}
				x.Obs = strings.Join(obs, " ")
				return x
			}
		}}
}

func blockedList(r *vs.Result) string {
	var p []string
	for _, b := range r.Blocked {
		if !b.Daemon {
			p = append(p, b.Thread+" in "+b.Op)
		}
	}
	return strings.Join(p, "; ")
}

// c12Opens: several opens in flight at once, some of whose dials fail; afterwards a message
// sent on each live session must arrive at the backend connection that was dialled for it.
func c12Opens(paths []string, pb int) vx.Scenario {
	return vx.Scenario{Name: fmt.Sprintf("c12/opens/%v", paths), PB: pb, MaxSteps: 20000, MaxTime: time.Minute,
		Setup: func(s *vs.Sched) func(*vs.Result) vx.Exec {
			w := newWorld(false)
			ids := make([]string, len(paths))
			statuses := make([]int, len(paths))
			opened := 0
			for i, p := range paths {
				i, p := i, p
				s.Thread(fmt.Sprintf("open%d", i), func() {
					r := w.call("open", "ws://client.example/"+p, nil)
					statuses[i] = r.status
					var o struct {
						ID string `json:"id"`
					}
					json.Unmarshal([]byte(r.body), &o)
					vs.Touch(unsafe.Pointer(w))
					ids[i] = o.ID
					opened++
				})
			}
			var dataStatus []int
			s.Thread("talker", func() {
				vs.Wait("all opens answered", unsafe.Pointer(w), func() bool { return opened == len(paths) })
				vs.Quiesce()
				for i, p := range paths {
					if ids[i] == "" {
						continue
					}
					b, _ := json.Marshal([]map[string]interface{}{{"id": ids[i], "msg": "hello " + p}})
					dataStatus = append(dataStatus, w.call("data", string(b), nil).status)
					vs.Quiesce()
				}
			})
			return func(r *vs.Result) vx.Exec {
				var x vx.Exec
				base(r, &x)
				seen := map[string]int{}
				for i, p := range paths {
					fails := strings.Contains(p, "fail")
					if fails && statuses[i] == 200 || !fails && statuses[i] != 200 {
						if len(r.Panics) == 0 {
							x.Violations = append(x.Violations, fmt.Sprintf("OPENSTATUS: open of %s answered %d", p, statuses[i]))
						}
					}
					if ids[i] != "" {
						seen[ids[i]]++
					}
				}
				for id, n := range seen {
					if n > 1 {
						x.Violations = append(x.Violations, fmt.Sprintf("SESSIONID-REUSED: session id %s was issued to %d sessions that are open at the same time (opens %v)", id, n, paths))
					}
				}
				// each backend connection must have received exactly the message sent on its own session
				for _, c := range w.clients {
					want := "hello " + strings.TrimPrefix(c.Name, "agent-ws/")
					got := ""
					for _, m := range c.Sent {
						got += string(m.Data) + "|"
					}
					if got != want+"|" && len(x.Violations) == 0 && len(r.Panics) == 0 {
						x.Violations = append(x.Violations, fmt.Sprintf("CROSSED-SESSIONS: the backend websocket dialled for %q received %q, expected %q (opens %v)", c.Name, got, want, paths))
					}
				}
				x.Obs = fmt.Sprintf("%v ids=%v data=%v", statuses, ids, dataStatus)
				return x
			}
		}}
}

// ---------------- C13: concurrent opens and handshake answers ----------------

// c13Opens opens shim sessions concurrently, some of them naming foreign hosts;
// whatever the interleaving and whatever the backend answers to the handshake,
// every connection the agent dials must go to the configured backend.
func c13Opens(urls []string, pb int) vx.Scenario {
	return vx.Scenario{Name: fmt.Sprintf("c13/opens/%q", urls), PB: pb, MaxSteps: 20000, MaxTime: time.Minute,
		Setup: func(s *vs.Sched) func(*vs.Result) vx.Exec {
			w := newWorld(false)
			ws := w.ws
			statuses := make([]int, len(urls))
			for i, u := range urls {
				i, u := i, u
				s.Thread(fmt.Sprintf("open%d", i), func() {
					statuses[i] = w.call("open", u, nil).status
				})
			}
			return func(r *vs.Result) vx.Exec {
				var x vx.Exec
				base(r, &x)
				var dialled []string
				for _, d := range ws.Dials {
					dialled = append(dialled, d.Host)
					if d.Host != "backend.test:8080" {
						x.Violations = append(x.Violations, fmt.Sprintf("FOREIGN-DIAL: the shim dialled %q (%s); the configured backend is backend.test:8080 (opens %q)", d.Host, d.URL, urls))
					}
				}
				if len(ws.Dials) < len(urls) && len(r.Panics) == 0 {
					x.Violations = append(x.Violations, fmt.Sprintf("NODIAL: %d opens led to %d dials", len(urls), len(ws.Dials)))
				}
				x.Obs = fmt.Sprintf("%v %v", statuses, dialled)
				return x
			}
		}}
}

func c13Scenarios(th bool) []vx.Scenario {
	var out []vx.Scenario
	pb := 2
	if th {
		pb = 3
	}
	foreign := []string{"ws://evil.example:9/a", "//other.test/b", "wss://user:pw@evil.example/c?x=1", "ws://client.example/d"}
	for i, a := range foreign {
		for _, b := range foreign[i:] {
			out = append(out, c13Opens([]string{a, b}, pb))
		}
	}
	out = append(out, c13Opens([]string{foreign[0], foreign[3], foreign[1]}, pb-1))
	// the backend answers the handshake with a redirect
	for _, code := range []string{"301", "302", "303", "307", "308"} {
		for _, to := range []string{"ws://evil.example/x", "http://evil.example/x", "https://evil.example:444/x", "//evil.example/x", "/elsewhere"} {
			q := url.Values{"code": {code}, "to": {to}}.Encode()
			sc := c13Opens([]string{"ws://client.example/redir?" + q}, 0)
			out = append(out, sc)
		}
	}
	out = append(out, c13Opens([]string{"ws://client.example/redir?" + url.Values{"to": {"ws://evil.example/x"}}.Encode(), "ws://client.example/plain"}, pb))
	return out
}

// c12Malformed: on an open session, one data post with an odd or malformed body (and the same for
// poll and close), then an ordinary data post: no panic, an answer to every call, the session still works.
func c12Malformed(action, body string, injection bool) vx.Scenario {
	return vx.Scenario{Name: fmt.Sprintf("c12/malformed/%s/injection=%v/%s", action, injection, clip(body)), PB: 0, Single: true, MaxSteps: 20000, MaxTime: time.Minute,
		Setup: func(s *vs.Sched) func(*vs.Result) vx.Exec {
			w := newWorld(injection)
			var odd, after *callResult
			s.Thread("driver", func() {
				w.call("open", "ws://client.example/s", nil)
				odd = &callResult{}
				odd = w.call(action, body, nil)
				vs.Quiesce()
				after = &callResult{}
				after = w.call("data", `[{"id":"1","msg":"after"}]`, nil)
				vs.Quiesce()
			})
			s.DaemonThread("backend-reader", func() {
				vs.Wait("backend: connection", nil, func() bool { return len(w.servers) > 0 })
				for {
					if _, _, err := w.servers[0].ReadMessage(); err != nil {
						return
					}
				}
			})
			return func(r *vs.Result) vx.Exec {
				var x vx.Exec
				base(r, &x)
				if odd == nil || !odd.done {
					if len(r.Panics) == 0 {
						x.Violations = append(x.Violations, fmt.Sprintf("NOANSWER: %s %s was never answered", action, clip(body)))
					}
					return x
				}
				x.Obs = fmt.Sprintf("%s %s -> %d; then data -> %d", action, clip(body), odd.status, after.status)
				if odd.status != 200 && odd.status != 400 && odd.status != 408 {
					x.Violations = append(x.Violations, fmt.Sprintf("STATUS: %s %s answered %d", action, clip(body), odd.status))
				}
				closedByCall := action == "close" && odd.status == 200
				if !closedByCall && after != nil && after.done && after.status != 200 && len(r.Panics) == 0 {
					x.Violations = append(x.Violations, fmt.Sprintf("SESSION-BROKEN: after %s %s (answered %d) an ordinary data post on the open session answered %d", action, clip(body), odd.status, after.status))
				}
				return x
			}
		}}
}

// c12CloseSilentBackend: the backend neither answers the close frame nor hangs up (it is busy, or has a
// close handler of its own); a shim close must still close the agent's end of the backend websocket.
func c12CloseSilentBackend(prelude []string) vx.Scenario {
	return vx.Scenario{Name: fmt.Sprintf("c12/close-with-silent-backend/%v", prelude), PB: 1, MaxSteps: 20000, MaxTime: time.Minute,
		Setup: func(s *vs.Sched) func(*vs.Result) vx.Exec {
			w := newWorld(false)
			var res *callResult
			agentEndClosed := false
			s.Thread("driver", func() {
				w.call("open", "ws://client.example/s", nil)
				for _, p := range prelude {
					switch p {
					case "data":
						w.call("data", `[{"id":"1","msg":"m"}]`, nil)
					case "bsend":
						if len(w.servers) > 0 {
							w.servers[0].WriteMessage(vws.TextMessage, []byte("srv"))
						}
					case "poll":
						w.call("poll", `{"id":"1"}`, nil)
					}
					vs.Quiesce()
				}
				res = &callResult{}
				res = w.call("close", `{"id":"1"}`, nil)
				vs.Quiesce()
				// looked at now: when the execution is torn down every parked goroutine unwinds and closes things
				agentEndClosed = len(w.clients) == 1 && w.clients[0].Closed()
			})
			return func(r *vs.Result) vx.Exec {
				var x vx.Exec
				base(r, &x)
				if res == nil || !res.done {
					return x
				}
				x.Obs = fmt.Sprintf("close -> %d, agent end closed=%v", res.status, agentEndClosed)
				if res.status != 200 {
					x.Violations = append(x.Violations, fmt.Sprintf("STATUS: close of an open session answered %d", res.status))
				}
				if len(w.clients) == 1 && !agentEndClosed {
					x.Violations = append(x.Violations, fmt.Sprintf("BACKEND-LEFT-OPEN: the session was closed (answer %d) but the agent's websocket to the backend, which does not answer close frames, is still open", res.status))
				}
				return x
			}
		}}
}

func c12MalformedAll() []vx.Scenario {
	var out []vx.Scenario
	data := []string{
		`[{"id":"1","msg":[]}]`, `[{"id":"1","msg":[1]}]`, `[{"id":"1","msg":["a","b"]}]`, `[{"id":"1","msg":[""]}]`, `[{"id":"1","msg":["!!not-base64"]}]`,
		`[{"id":"1","msg":["aGk="]}]`, `[{"id":"1","msg":{}}]`, `[{"id":"1","msg":null}]`, `[{"id":"1"}]`, `[{"msg":"x"}]`, `[null]`, `[[]]`, `[]`, `""`, `null`,
		`{"id":"1","msg":"x"}`, `[{"id":1,"msg":"x"}]`, `[{"id":"1","msg":true}]`, `[{"id":"1","msg":1e400}]`, `[{"id":"1","msg":"x"},{"id":"1","msg":[]}]`,
		`[{"id":"1","msg":"{\"resource\":{\"headers\":[]}}"}]`, `[{"id":"1","msg":"{\"resource\":null}"}]`, `[{"id":"1","msg":"{\"resource\":{\"headers\":{\"a\":1}}}"}]`,
	}
	for _, inj := range []bool{false, true} {
		for _, b := range data {
			out = append(out, c12Malformed("data", b, inj))
		}
	}
	for _, b := range []string{`{"id":[]}`, `{"id":1}`, `{"id":null}`, `{}`, `null`, `[]`, `"1"`, `{"id":"1","extra":[]}`} {
		out = append(out, c12Malformed("poll", b, false), c12Malformed("close", b, false))
	}
	return out
}

func c12Scenarios(th bool) []vx.Scenario {
	var out []vx.Scenario
	out = append(out, c12MalformedAll()...)
	for _, pre := range [][]string{{}, {"data"}, {"bsend"}, {"bsend", "poll"}, {"data", "bsend"}} {
		out = append(out, c12CloseSilentBackend(pre))
	}
	// more unpolled backend messages than the queue holds (the reading goroutine is parked on the full
	// queue), then the client closes, or the backend does
	for _, n := range []int{10, 11, 14} {
		pre := make([]string, n)
		for i := range pre {
			pre[i] = "bsend"
		}
		out = append(out, c12CloseSilentBackend(pre))
		out = append(out, c12CloseSilentBackend(append(append([]string{}, pre...), "poll")))
	}
	// what polls deliver is what the backend sent (several messages queued before the poll, then a close)
	{
		a11 := alphabetC11(false)
		out = append(out, c11Down("c12/delivery/[0 1 2]/poll@3", []msg{a11[0], a11[1], a11[2]}, []int{3}, 0))
		out = append(out, c11DownClose("c12/delivery/[2 0 1]/then-close/poll@3", []msg{a11[2], a11[0], a11[1]}, []int{3}, true, 0))
	}
	// closing while the backend is not reading and the queue towards it is full
	for _, n := range []int{12, 13, 14} {
		out = append(out, c11Slow(fmt.Sprintf("c12/close-under-back-pressure/n%d/cap2/stall15s", n), n, 2, 15*time.Second, true, 1))
	}
	al := c12Alphabet()
	depth := 4
	if th {
		depth = 5
	}
	// one scenario per first operation keeps the pieces evenly sized
	for k := range al {
		out = append(out, c12Seq(depth, []int{0, k}))
	}
	for k := range al {
		if k != 0 {
			out = append(out, c12Seq(depth-1, []int{k}))
		}
	}
	pb := 2
	if th {
		pb = 3
	}
	out = append(out, c12Opens([]string{"fail-a", "b", "c"}, pb), c12Opens([]string{"a", "fail-b"}, pb), c12Opens([]string{"a", "b"}, pb))
	if th {
		out = append(out, c12Opens([]string{"fail-a", "fail-b", "c", "d"}, 2))
	}
	preludes := [][]string{{}, {"bsend"}, {"data"}, {"bclose"}, {"bsend", "bclose"}}
	pairs := [][]string{{"data", "close"}, {"close", "close"}, {"poll", "close"}, {"poll", "bclose"}, {"data", "bclose"}, {"data12", "bclose"}, {"data12", "close"}, {"poll", "bsend"}, {"data", "data"}, {"poll", "data"}}
	for pi, pre := range preludes {
		for _, pr := range pairs {
			p := pb
			if pr[0] == "data12" {
				p-- // twelve queued messages make these the largest spaces
			}
			if !th && pi > 0 && pr[0] != "data12" {
				p = 1
			}
			out = append(out, c12Pair(pre, pr, p))
		}
	}
	if th {
		for _, tr := range [][]string{{"data", "close", "poll"}, {"close", "close", "data"}, {"poll", "bclose", "close"}, {"data12", "close", "bclose"}} {
			out = append(out, c12Pair(nil, tr, 2))
		}
	}
	return out
}

func main() {
	flag.Parse()
	vx.Main(&vx.Harness{Property: *prop, Name: "shim-" + strings.ToLower(*prop), Scenarios: func(tier string) []vx.Scenario {
		if *prop == "C11" {
			return c11Scenarios(tier == "thorough")
		}
		if *prop == "C13" {
			return c13Scenarios(tier == "thorough")
		}
		return c12Scenarios(tier == "thorough")
	}})
}
