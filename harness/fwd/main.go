// Harness fwd: utils.NewResponseForwarder (the agent's response path: handler
// -> streaming writer -> serialiser goroutine -> uploader goroutine with
// retries) driven by a scripted backend-side handler thread and a scripted
// proxy endpoint (http.RoundTripper), all as controlled threads.
//
//	-prop C03: handler scripts x all interleavings; the uploaded bytes must parse to the scripted response
//	-prop C05: lock-step producer; the handler only continues after the proxy has seen the previous chunk
//	-prop C06: fault scripts on the upload (kind x position x attempt x lingering reader)
package main

import (
	"bufio"
	"bytes"
	"errors"
	"flag"
	"fmt"
	"io"
	"net/http"
	"strings"
	"time"
	"unsafe"

	"github.com/google/inverting-proxy/agent/utils"
	"github.com/google/inverting-proxy/zz_verif/vh"
	"github.com/google/inverting-proxy/zz_verif/vs"
	"github.com/google/inverting-proxy/zz_verif/vtime"
	"github.com/google/inverting-proxy/zz_verif/vx"
)

var prop = flag.String("prop", "C03", "C03|C05|C06")
var report = flag.String("report", "", "property id to report under (default: -prop)")

// ---- handler scripts ----

type hop struct {
	kind   string // "H" header add, "WH" write header, "W" write, "T" set trailer (plain key), "TP" set trailer (TrailerPrefix key)
	k, v   string
	n      int
	status int
}

type script struct {
	name string
	ops  []hop
}

func (sc script) String() string { return sc.name }

const payloadByte = '#'

func payload(n int) []byte { return bytes.Repeat([]byte{payloadByte}, n) }

// expected response of a script, from the ResponseWriter contract
type expect struct {
	status  int
	header  http.Header
	body    int
	trailer http.Header
}

var hopByHop = map[string]bool{"Connection": true, "Proxy-Connection": true, "Keep-Alive": true, "Proxy-Authenticate": true, "Proxy-Authorization": true, "Te": true, "Trailer": true, "Transfer-Encoding": true, "Upgrade": true}

func (sc script) expected() expect {
	e := expect{status: 200, header: http.Header{}, trailer: http.Header{}}
	wrote := false
	declared := map[string]bool{}
	cur := http.Header{}
	freeze := func() {
		if wrote {
			return
		}
		wrote = true
		for _, line := range cur["Trailer"] {
			for _, n := range strings.Split(line, ",") {
				n = http.CanonicalHeaderKey(strings.TrimSpace(n))
				if n != "" && !hopByHop[n] {
					declared[n] = true
				}
			}
		}
		for k, v := range cur {
			if !hopByHop[k] {
				e.header[k] = append([]string{}, v...)
			}
		}
	}
	for _, op := range sc.ops {
		switch op.kind {
		case "H":
			cur.Add(op.k, op.v)
		case "I1xx":
			// interim response: its fields are not part of the final response
		case "WH":
			if op.status >= 200 && !wrote {
				e.status = op.status
				freeze()
			}
		case "W":
			freeze()
			e.body += op.n
		case "T":
			if declared[http.CanonicalHeaderKey(op.k)] {
				e.trailer.Add(op.k, op.v)
			}
		case "TP":
			if !hopByHop[http.CanonicalHeaderKey(op.k)] {
				e.trailer.Add(op.k, op.v)
			}
		}
	}
	freeze()
	return e
}

// run performs the script on w the way a handler (httputil.ReverseProxy) would.
func (sc script) run(w http.ResponseWriter, afterWrite func(total int)) {
	total := 0
	for _, op := range sc.ops {
		switch op.kind {
		case "H":
			w.Header().Add(op.k, op.v)
		case "I1xx":
			// exactly what httputil.ReverseProxy does for an interim response
			h := w.Header()
			h.Add(op.k, op.v)
			w.WriteHeader(op.status)
			for k := range h {
				delete(h, k)
			}
		case "WH":
			w.WriteHeader(op.status)
		case "W":
			w.Write(payload(op.n))
			total += op.n
			if afterWrite != nil {
				afterWrite(total)
			}
		case "T":
			w.Header().Add(op.k, op.v)
		case "TP":
			w.Header().Add(http.TrailerPrefix+op.k, op.v)
		}
	}
}

// ---- scripted proxy endpoint ----

type attempt struct {
	kind   string // "200", "503", "err"
	readTo int    // bytes to read before answering; -1 = whole body
	linger bool   // the body reader outlives RoundTrip (net/http allows it; the transport's write loop does it)
	// lateClose: the body is closed by the transport only after RoundTrip has returned (net/http allows
	// that too), i.e. possibly while the next attempt is reading
	lateClose bool
	// copyBreak > 0: the transport streams the body with io.Copy (using WriteTo if the body has one) into
	// a connection that accepts this many bytes and then breaks
	copyBreak int
}

type attemptLog struct {
	got      []byte
	answered string
	eof      bool
	readErr  string
	late     int // bytes read by a lingering reader after the answer
}

type proxyRT struct {
	plan       []attempt
	log        []*attemptLog
	seen       int // payload bytes observed so far (C05)
	onProgress func(seen int)
	onSeen     unsafe.Pointer
	chunkBuf   int
}

type nopBody struct{ io.Reader }

func (nopBody) Close() error { return nil }

func reply(code int) *http.Response {
	return &http.Response{StatusCode: code, Status: fmt.Sprintf("%d X", code), Proto: "HTTP/1.1", ProtoMajor: 1, ProtoMinor: 1,
		Header: http.Header{}, Body: nopBody{strings.NewReader("")}}
}

func (p *proxyRT) RoundTrip(req *http.Request) (*http.Response, error) {
	vs.Touch(unsafe.Pointer(p))
	i := len(p.log)
	l := &attemptLog{}
	p.log = append(p.log, l)
	a := attempt{kind: "200", readTo: -1}
	if i < len(p.plan) {
		a = p.plan[i]
	}
	if a.copyBreak > 0 {
		bw := &breakingWriter{limit: a.copyBreak, l: l, p: p}
		_, err := io.Copy(bw, req.Body)
		vs.Touch(unsafe.Pointer(p))
		l.answered = "err"
		if err == nil {
			// the body ended before the connection broke: an ordinary 503 then
			l.eof = true
			l.answered = "503"
			req.Body.Close()
			return reply(503), nil
		}
		req.Body.Close()
		return nil, errors.New("scripted: write tcp: broken pipe")
	}
	buf := make([]byte, p.bufSize())
	readSome := func() bool {
		n, err := req.Body.Read(buf)
		vs.Touch(unsafe.Pointer(p))
		l.got = append(l.got, buf[:n]...)
		p.seen += bytes.Count(buf[:n], []byte{payloadByte})
		if p.onProgress != nil {
			p.onProgress(p.seen)
		}
		if err == io.EOF {
			l.eof = true
			return false
		}
		if err != nil {
			l.readErr = err.Error()
			return false
		}
		return true
	}
	for a.readTo < 0 || len(l.got) < a.readTo {
		if !readSome() {
			break
		}
	}
	vs.Touch(unsafe.Pointer(p))
	l.answered = a.kind
	if a.linger && !l.eof && l.readErr == "" {
		// The transport's write loop may still be inside body.Read when the
		// answer (or the error) arrives; it gives up after that read returns.
		vs.Go(func() {
			before := len(l.got)
			readSome()
			vs.Touch(unsafe.Pointer(p))
			l.late = len(l.got) - before
			l.got = l.got[:before]
		})
	} else if a.lateClose {
		vs.Go(func() {
			vs.Point("transport: closes the request body late", nil)
			req.Body.Close()
		})
	} else {
		req.Body.Close()
	}
	switch a.kind {
	case "200":
		return reply(200), nil
	case "503":
		return reply(503), nil
	default:
		return nil, errors.New("scripted connection failure")
	}
}

// breakingWriter is a connection that accepts limit bytes and then fails every write.
type breakingWriter struct {
	limit int
	l     *attemptLog
	p     *proxyRT
}

func (b *breakingWriter) Write(d []byte) (int, error) {
	vs.Touch(unsafe.Pointer(b.p))
	room := b.limit - len(b.l.got)
	if room <= 0 {
		return 0, errors.New("write tcp: broken pipe")
	}
	if len(d) <= room {
		b.l.got = append(b.l.got, d...)
		return len(d), nil
	}
	b.l.got = append(b.l.got, d[:room]...)
	return room, errors.New("write tcp: broken pipe")
}

func (p *proxyRT) bufSize() int {
	if p.chunkBuf > 0 {
		return p.chunkBuf
	}
	return 32 * 1024
}

// ---- scenarios ----

func newReq() *http.Request {
	r, _ := http.ReadRequest(bufio.NewReader(strings.NewReader("GET /x HTTP/1.1\r\nHost: h\r\n\r\n")))
	return r
}

type outcome struct {
	closeErr   error
	closed     bool
	handlerRan bool
}

func base(r *vs.Result, x *vx.Exec) {
	for _, p := range r.Panics {
		x.Violations = append(x.Violations, "PANIC: "+p)
	}
	for _, rc := range r.Races {
		x.Violations = append(x.Violations, fmt.Sprintf("RACE: unsynchronised concurrent use of %s by %s and %s", rc.Object, rc.A, rc.B))
	}
}

// c03 scenario: one script, fault-free proxy.
func c03Scenario(sc script, pb int) vx.Scenario {
	return vx.Scenario{Name: "c03/" + sc.name, PB: pb, MaxSteps: 4000,
		Setup: func(s *vs.Sched) func(*vs.Result) vx.Exec {
			rt := &proxyRT{}
			out := &outcome{}
			s.Thread("handler", func() {
				w, err := utils.NewResponseForwarder(&http.Client{Transport: rt}, "http://proxy/", "b", "id1", newReq(), nil)
				if err != nil {
					panic(err)
				}
				sc.run(w, nil)
				out.handlerRan = true
				out.closeErr = w.Close()
				out.closed = true
			})
			return func(r *vs.Result) vx.Exec {
				var x vx.Exec
				base(r, &x)
				e := sc.expected()
				if !out.closed && len(r.Panics) == 0 {
					x.Violations = append(x.Violations, "HANG: handler side never returned from Close(): "+blocked(r))
				}
				if out.closed && out.closeErr != nil {
					x.Violations = append(x.Violations, "CLOSEERR: fault-free upload but Close() returned "+out.closeErr.Error())
				}
				if len(rt.log) != 1 {
					x.Violations = append(x.Violations, fmt.Sprintf("ATTEMPTS: %d upload attempts on a fault-free proxy", len(rt.log)))
				}
				if len(rt.log) >= 1 && out.closed {
					got := rt.log[0].got
					x.Obs = compare(got, e, &x)
				}
				return x
			}
		}}
}

func blocked(r *vs.Result) string {
	var parts []string
	for _, b := range r.Blocked {
		parts = append(parts, b.Thread+" in "+b.Op)
	}
	return strings.Join(parts, "; ")
}

// compare parses the uploaded bytes and compares them with the expectation.
func compare(got []byte, e expect, x *vx.Exec) string {
	br := bufio.NewReader(bytes.NewReader(got))
	resp, err := http.ReadResponse(br, nil)
	if err != nil {
		x.Violations = append(x.Violations, fmt.Sprintf("UNPARSABLE: uploaded bytes are not an HTTP response: %v (%q)", err, vh.Short(string(got))))
		return "unparsable"
	}
	body, err := io.ReadAll(resp.Body)
	if err != nil {
		x.Violations = append(x.Violations, fmt.Sprintf("BODYERR: uploaded body unreadable: %v", err))
	}
	if resp.StatusCode != e.status {
		x.Violations = append(x.Violations, fmt.Sprintf("STATUS: uploaded status %d, handler wrote %d", resp.StatusCode, e.status))
	}
	hdr := resp.Header.Clone()
	hdr.Del("Trailer")
	// framing is not part of the comparison: the upload is always re-framed as chunked
	hdr.Del("Content-Length")
	eh := e.header.Clone()
	eh.Del("Content-Length")
	if a, b := vh.HeaderString(hdr), vh.HeaderString(eh); a != b {
		x.Violations = append(x.Violations, fmt.Sprintf("HEADER: uploaded header {%s}, handler produced {%s}", a, b))
	}
	if len(body) != e.body || bytes.Count(body, []byte{payloadByte}) != len(body) {
		x.Violations = append(x.Violations, fmt.Sprintf("BODY: uploaded body has %d bytes, handler wrote %d", len(body), e.body))
	}
	if rest, _ := io.ReadAll(br); len(rest) > 0 {
		x.Violations = append(x.Violations, fmt.Sprintf("GARBAGE: %d bytes follow the end of the uploaded response", len(rest)))
	}
	if a, b := vh.HeaderString(resp.Trailer), vh.HeaderString(e.trailer); a != b {
		x.Violations = append(x.Violations, fmt.Sprintf("TRAILER: uploaded trailers {%s}, handler produced {%s}", a, b))
	}
	return fmt.Sprintf("%d {%s} body=%d tr{%s}", resp.StatusCode, vh.HeaderString(hdr), len(body), vh.HeaderString(resp.Trailer))
}

// c05 scenario: lock-step producer.
func c05Scenario(sizes []int, pb int) vx.Scenario { return c05ScenarioCL(sizes, pb, false) }

func c05ScenarioCL(sizes []int, pb int, announce bool) vx.Scenario {
	name := fmt.Sprintf("c05/%v", sizes)
	var ops []hop
	if announce {
		// the backend announced the length up front and still produces the body piecemeal
		total := 0
		for _, n := range sizes {
			total += n
		}
		name += "/content-length"
		ops = append(ops, hop{kind: "H", k: "Content-Length", v: fmt.Sprint(total)}, hop{kind: "H", k: "Content-Type", v: "text/plain"})
	}
	ops = append(ops, hop{kind: "WH", status: 200})
	for _, n := range sizes {
		ops = append(ops, hop{kind: "W", n: n})
	}
	sc := script{name: name, ops: ops}
	return vx.Scenario{Name: name, PB: pb, MaxSteps: 6000,
		Setup: func(s *vs.Sched) func(*vs.Result) vx.Exec {
			rt := &proxyRT{}
			out := &outcome{}
			s.Thread("handler", func() {
				w, err := utils.NewResponseForwarder(&http.Client{Transport: rt}, "http://proxy/", "b", "id1", newReq(), nil)
				if err != nil {
					panic(err)
				}
				sc.run(w, func(total int) {
					// the backend only continues once the proxy has observed everything flushed so far
					vh.Until(fmt.Sprintf("proxy-has-seen-%d-bytes", total), unsafe.Pointer(rt), func() bool { return rt.seen >= total })
				})
				out.handlerRan = true
				out.closeErr = w.Close()
				out.closed = true
			})
			return func(r *vs.Result) vx.Exec {
				var x vx.Exec
				base(r, &x)
				if !out.closed && len(r.Panics) == 0 {
					x.Violations = append(x.Violations, fmt.Sprintf("STALL: the response made no progress: proxy had seen %d payload bytes; %s", rt.seen, blocked(r)))
				}
				if out.closed && out.closeErr != nil {
					x.Violations = append(x.Violations, "CLOSEERR: "+out.closeErr.Error())
				}
				x.Obs = fmt.Sprintf("seen=%d closed=%v", rt.seen, out.closed)
				if out.closed && len(rt.log) == 1 {
					x.Obs += " " + compare(rt.log[0].got, sc.expected(), &x)
				}
				return x
			}
		}}
}

// c05Trickle: the backend flushes a small chunk every `gap` of virtual time without waiting for
// anybody; every chunk must have reached the proxy endpoint within 100 ms (virtual) of its flush.
func c05Trickle(chunks, size int, gap time.Duration) vx.Scenario {
	name := fmt.Sprintf("c05/trickle/%dx%d/every%v", chunks, size, gap)
	return vx.Scenario{Name: name, PB: 0, Single: true, MaxSteps: 2000000, MaxTime: time.Hour,
		Setup: func(s *vs.Sched) func(*vs.Result) vx.Exec {
			rt := &proxyRT{}
			out := &outcome{}
			flushed := make([]time.Duration, 0, chunks) // virtual time at which the first k*size bytes had been written
			seenAt := map[int]time.Duration{}           // payload byte count -> virtual time it was first observed
			rt.onProgress = func(n int) {
				if _, ok := seenAt[n]; !ok {
					seenAt[n] = s.Now()
				}
			}
			s.Thread("handler", func() {
				w, err := utils.NewResponseForwarder(&http.Client{Transport: rt}, "http://proxy/", "b", "id1", newReq(), nil)
				if err != nil {
					panic(err)
				}
				w.WriteHeader(200)
				for i := 0; i < chunks; i++ {
					w.Write(payload(size))
					flushed = append(flushed, s.Now())
					vtime.Sleep(gap)
				}
				out.handlerRan = true
				out.closeErr = w.Close()
				out.closed = true
			})
			return func(r *vs.Result) vx.Exec {
				var x vx.Exec
				base(r, &x)
				if !out.closed && len(r.Panics) == 0 {
					x.Violations = append(x.Violations, "STALL: the handler never finished: "+blocked(r))
					return x
				}
				worst := time.Duration(0)
				for i, t := range flushed {
					need := (i + 1) * size
					// first observation time of at least `need` payload bytes
					best := time.Duration(-1)
					for n, at := range seenAt {
						if n >= need && (best < 0 || at < best) {
							best = at
						}
					}
					if best < 0 {
						x.Violations = append(x.Violations, fmt.Sprintf("HELDBACK: chunk %d of %s never reached the proxy endpoint", i+1, name))
						break
					}
					if lat := best - t; lat > worst {
						worst = lat
					}
				}
				if worst > 100*time.Millisecond {
					x.Violations = append(x.Violations, fmt.Sprintf("HELDBACK: a chunk flushed by the backend reached the proxy endpoint only %v (virtual) later while the backend kept producing (%s)", worst, name))
				}
				x.Obs = fmt.Sprintf("%s worst latency %v", name, worst)
				return x
			}
		}}
}

// c06 scenario: one fault plan, one response shape.
func c06Scenario(writes []int, plan []attempt, pb int) vx.Scenario {
	var pn []string
	lingering := false
	for _, a := range plan {
		l := ""
		if a.linger {
			l = "L"
			lingering = true
		}
		if a.lateClose {
			l += "C"
		}
		if a.copyBreak > 0 {
			l += fmt.Sprintf("/copy-breaks@%d", a.copyBreak)
		}
		pn = append(pn, fmt.Sprintf("%s@%d%s", a.kind, a.readTo, l))
	}
	sub := "plain"
	if lingering {
		sub = "linger"
	}
	name := fmt.Sprintf("c06/%s/w%v/%s", sub, writes, strings.Join(pn, ","))
	ops := []hop{{kind: "H", k: "X-A", v: "1"}, {kind: "WH", status: 200}}
	for _, n := range writes {
		ops = append(ops, hop{kind: "W", n: n})
	}
	sc := script{name: name, ops: ops}
	memPB := 0
	if lingering && !thoroughTier {
		// the lingering reader of an answered attempt races with the retry on the shared body
		// (the recorded finding C06-stale-reader): one preemption at those accesses in the quick tier
		memPB = 1
	}
	return vx.Scenario{Name: name, PB: pb, MaxSteps: 6000, MemPB: memPB,
		Setup: func(s *vs.Sched) func(*vs.Result) vx.Exec {
			rt := &proxyRT{plan: plan}
			out := &outcome{}
			var writeErrs []string
			s.Thread("handler", func() {
				w, err := utils.NewResponseForwarder(&http.Client{Transport: rt}, "http://proxy/", "b", "id1", newReq(), nil)
				if err != nil {
					panic(err)
				}
				for _, op := range sc.ops {
					switch op.kind {
					case "H":
						w.Header().Add(op.k, op.v)
					case "WH":
						w.WriteHeader(op.status)
					case "W":
						if _, err := w.Write(payload(op.n)); err != nil {
							writeErrs = append(writeErrs, err.Error())
						}
					}
				}
				out.handlerRan = true
				out.closeErr = w.Close()
				out.closed = true
			})
			return func(r *vs.Result) vx.Exec {
				var x vx.Exec
				base(r, &x)
				// a reader of an earlier, already answered attempt that is still inside the shared
				// body while the retry reads it: the same defect as STALE-READER-CORRUPT
				// showing as an index panic in bufferedReadSeeker.Read
				lateReader := lingering && len(rt.log) >= 2
				for _, pl := range rt.log {
					if pl.late > 0 {
						lateReader = true
					}
				}
				for i, m := range x.Violations {
					if lateReader && strings.HasPrefix(m, "PANIC: ") && strings.Contains(m, "slice bounds out of range") && strings.Contains(m, "(*bufferedReadSeeker).Read") {
						x.Violations[i] = "STALE-READER-PANIC: the reader of an answered upload attempt and the retry were inside the shared request body at the same time: " + strings.TrimPrefix(m, "PANIC: ")
					}
				}
				e := sc.expected()
				tag := ""
				if !out.closed && len(r.Panics) == 0 {
					x.Violations = append(x.Violations, tag+"HANG: the backend-facing handler is left blocked: "+blocked(r))
				}
				if len(rt.log) > 3 {
					x.Violations = append(x.Violations, fmt.Sprintf(tag+"ATTEMPTS: %d upload attempts, at most 3 allowed", len(rt.log)))
				}
				anyOK := false
				var ob []string
				for i, l := range rt.log {
					ob = append(ob, fmt.Sprintf("%s:%d%v", l.answered, len(l.got), l.eof))
					if l.answered != "200" {
						continue
					}
					anyOK = true
					var cx vx.Exec
					compare(l.got, e, &cx)
					if !l.eof {
						cx.Violations = append(cx.Violations, "upload body did not end")
					}
					stale := ""
					for _, pl := range rt.log[:i] {
						if pl.late > 0 {
							stale = "STALE-READER-"
						}
					}
					if len(cx.Violations) > 0 {
						x.Violations = append(x.Violations, fmt.Sprintf(stale+"CORRUPT: attempt %d was acknowledged but did not carry the complete serialised response (%d bytes received): %s", i+1, len(l.got), strings.Join(cx.Violations, "; ")))
					}
				}
				_ = anyOK // whether Close() reports a rejected upload is not part of the property
				// retry discipline: a retry is only legitimate while the sent prefix is replayable
				for i := 1; i < len(rt.log); i++ {
					prev := rt.log[i-1]
					if len(prev.got)+prev.late >= 4096 && len(rt.log[i].got) > 0 && !lingering {
						x.Violations = append(x.Violations, fmt.Sprintf(tag+"UNREPLAYABLE: attempt %d started although %d bytes had already been consumed (replay limit 4096)", i+1, len(prev.got)))
					}
				}
				x.Obs = fmt.Sprintf("%v closeErr=%v werr=%d", ob, out.closeErr != nil, len(writeErrs))
				return x
			}
		}}
}

func main() {
	flag.Parse()
	if *report == "" {
		*report = *prop
	}
	vx.Main(&vx.Harness{Property: *report, Name: "fwd-" + strings.ToLower(*prop), Scenarios: scenarios})
}

// ---- scenario tables ----

func trailerModes() map[string][2][]hop {
	// name -> (ops before WriteHeader, ops after the body)
	return map[string][2][]hop{
		"t0":    {nil, nil},
		"t1d":   {{{kind: "H", k: "Trailer", v: "X-T1"}}, {{kind: "T", k: "X-T1", v: "a"}}},
		"t2d":   {{{kind: "H", k: "Trailer", v: "X-T1"}, {kind: "H", k: "Trailer", v: "X-T2"}}, {{kind: "T", k: "X-T1", v: "a"}, {kind: "T", k: "X-T2", v: "b"}}},
		"t2j":   {{{kind: "H", k: "Trailer", v: "X-T1, X-T2"}}, {{kind: "T", k: "X-T1", v: "a"}, {kind: "T", k: "X-T2", v: "b"}}},
		"t1u":   {nil, {{kind: "TP", k: "X-U1", v: "u"}}},
		"t1d1u": {{{kind: "H", k: "Trailer", v: "X-T1"}}, {{kind: "T", k: "X-T1", v: "a"}, {kind: "TP", k: "X-U1", v: "u"}}},
	}
}

func c03Scripts(all bool) []script {
	var out []script
	// Zero-length writes are left out: httputil.ReverseProxy's copy loop never
	// issues one, so no backend response can produce it.
	writeSets := [][]int{{}, {1}, {2}, {5000}, {1, 1}, {1, 5000}, {5000, 1}, {2, 2}, {5000, 5000}, {1, 1, 1}}
	if !all {
		writeSets = [][]int{{}, {1}, {5000}, {1, 5000}}
	}
	tm := trailerModes()
	var tnames []string
	for k := range tm {
		tnames = append(tnames, k)
	}
	sortStrings(tnames)
	statuses := []int{200, 500}
	for _, st := range statuses {
		for wi, ws := range writeSets {
			for ti, tn := range tnames {
				if !all && st == 500 && (wi+ti)%3 != 0 {
					continue
				}
				for _, explicit := range []bool{true, false} {
					if !explicit && (st != 200 || len(ws) == 0) {
						// without a body write the handler must call WriteHeader itself
						continue
					}
					if !all && !explicit && ti%2 == 1 {
						continue
					}
					var ops []hop
					ops = append(ops, hop{kind: "H", k: "X-A", v: "1"}, hop{kind: "H", k: "Set-Cookie", v: "a=1"}, hop{kind: "H", k: "Set-Cookie", v: "b=2"}, hop{kind: "H", k: "Connection", v: "close"})
					ops = append(ops, tm[tn][0]...)
					if explicit {
						ops = append(ops, hop{kind: "WH", status: st})
					}
					for _, n := range ws {
						ops = append(ops, hop{kind: "W", n: n})
					}
					ops = append(ops, tm[tn][1]...)
					name := fmt.Sprintf("s%d-w%v-%s-x%v", st, ws, tn, explicit)
					out = append(out, script{name: name, ops: ops})
				}
			}
		}
	}
	// interim (1xx) responses passed on by the handler before the final status
	for _, ws := range [][]int{{}, {1}} {
		out = append(out, script{name: fmt.Sprintf("interim103-w%v", ws), ops: append([]hop{{kind: "H", k: "Link", v: "</x>"}, {kind: "WH", status: 103}, {kind: "H", k: "X-A", v: "1"}, {kind: "WH", status: 200}}, writes(ws)...)})
	}
	for _, ws := range [][]int{{}, {1}, {5000}} {
		out = append(out, script{name: fmt.Sprintf("interim-rp103-w%v", ws), ops: append([]hop{{kind: "I1xx", status: 103, k: "Link", v: "</style.css>; rel=preload"}, {kind: "H", k: "X-A", v: "1"}, {kind: "H", k: "Link", v: "</final>"}, {kind: "WH", status: 200}}, writes(ws)...)})
		out = append(out, script{name: fmt.Sprintf("interim-rp103x2-w%v", ws), ops: append([]hop{{kind: "I1xx", status: 103, k: "Link", v: "</a>"}, {kind: "I1xx", status: 103, k: "X-Interim-Only", v: "x"}, {kind: "H", k: "X-A", v: "1"}, {kind: "WH", status: 404}}, writes(ws)...)})
	}
	out = append(out, script{name: "interim100+103-w[2]", ops: append([]hop{{kind: "WH", status: 100}, {kind: "WH", status: 103}, {kind: "H", k: "X-A", v: "1"}, {kind: "WH", status: 201}}, writes([]int{2})...)})
	return out
}

func writes(ws []int) []hop {
	var ops []hop
	for _, n := range ws {
		ops = append(ops, hop{kind: "W", n: n})
	}
	return ops
}

func sortStrings(a []string) {
	for i := range a {
		for j := i + 1; j < len(a); j++ {
			if a[j] < a[i] {
				a[i], a[j] = a[j], a[i]
			}
		}
	}
}

func scenarios(tier string) []vx.Scenario {
	thorough := tier == "thorough"
	var out []vx.Scenario
	switch *prop {
	case "C03":
		pb := 2
		if thorough {
			pb = 3
		}
		for _, sc := range c03Scripts(thorough) {
			out = append(out, c03Scenario(sc, pb))
		}
	case "C05":
		sets := [][]int{{1}, {4096}, {1, 1}, {2, 4095}, {4097, 1}, {40000}, {1, 1, 1}, {40000, 1, 4096}}
		pb := 2
		if thorough {
			pb = 3
			sets = append(sets, []int{4095, 4096, 4097}, []int{1, 40000, 2}, []int{70000, 70000}, []int{1 << 20}, []int{3, 1 << 20, 3})
		}
		for _, s := range sets {
			out = append(out, c05Scenario(s, pb))
		}
		for _, s := range [][]int{{1, 1}, {5, 10, 3}, {1000, 1000}, {2047, 1}, {2048, 1, 1}, {4000, 200}} {
			out = append(out, c05ScenarioCL(s, pb, true))
		}
		out = append(out, c05Trickle(300, 8, time.Millisecond), c05Trickle(40, 1, 5*time.Millisecond), c05Trickle(200, 300, 2*time.Millisecond))
	case "C06":
		out = c06Scenarios(thorough)
	}
	return out
}

var thoroughTier bool

func c06Scenarios(thorough bool) []vx.Scenario {
	thoroughTier = thorough
	var out []vx.Scenario
	sizes := [][]int{{10}, {4097}}
	positions := []int{0, 1, 17, 4095, 4096, 4097, -1}
	pb := 1
	if thorough {
		sizes = [][]int{{10}, {4000}, {4096}, {4097}, {9000}, {10, 4000}, {4000, 5000}}
		pb = 2
	}
	kinds := []string{"503", "err"}
	// Alignment sweep: every first-write size that can make a read of the upload end
	// exactly at (or one off) the 4096-byte replay limit, whatever the header block's size
	// (up to 200 bytes), followed by one more write; fault after everything was consumed.
	for n := 4096 - 200; n <= 4096+4; n++ {
		for _, k := range kinds {
			out = append(out, c06Scenario([]int{n, 10}, []attempt{{kind: k, readTo: -1}}, 0))
			if thorough {
				out = append(out, c06Scenario([]int{n}, []attempt{{kind: k, readTo: -1}}, 1))
				out = append(out, c06Scenario([]int{n, 10}, []attempt{{kind: k, readTo: 4097}}, 1))
			}
		}
	}
	// the transport closes the body of a failed attempt late; the connection breaks in the middle of a write
	for _, ws := range [][]int{{10}, {1000}, {4097}} {
		for _, k := range kinds {
			out = append(out, c06Scenario(ws, []attempt{{kind: k, readTo: -1, lateClose: true}}, pb+1))
			out = append(out, c06Scenario(ws, []attempt{{kind: k, readTo: -1, lateClose: true}, {kind: k, readTo: -1, lateClose: true}}, pb))
		}
		for _, n := range []int{1, 20, 60, 100, 150, 1000, 4000} {
			out = append(out, c06Scenario(ws, []attempt{{kind: "err", copyBreak: n}}, 0))
			out = append(out, c06Scenario(ws, []attempt{{kind: "503", readTo: -1}, {kind: "err", copyBreak: n}}, 0))
		}
	}
	for _, ws := range sizes {
		// one faulty attempt then success; two faulty attempts then success; three faulty attempts
		for _, k1 := range kinds {
			for _, p1 := range positions {
				for _, l1 := range []bool{false, true} {
					a1 := attempt{kind: k1, readTo: p1, linger: l1}
					out = append(out, c06Scenario(ws, []attempt{a1}, pb))
					if !thorough && (p1 != 0 && p1 != 17 && p1 != -1) {
						continue
					}
					for _, k2 := range kinds {
						for _, p2 := range positions {
							if !thorough && p2 != 0 && p2 != 4096 && p2 != -1 {
								continue
							}
							for _, l2 := range []bool{false, true} {
								if l1 && l2 && !thorough {
									continue
								}
								a2 := attempt{kind: k2, readTo: p2, linger: l2}
								out = append(out, c06Scenario(ws, []attempt{a1, a2}, pb))
								if p1 == 0 && p2 == 0 {
									out = append(out, c06Scenario(ws, []attempt{a1, a2, {kind: k2, readTo: 0}}, pb))
									out = append(out, c06Scenario(ws, []attempt{a1, a2, {kind: k1, readTo: -1}}, pb))
								}
							}
						}
					}
				}
			}
		}
	}
	return out
}
