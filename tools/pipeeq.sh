#!/bin/bash
# Checks the specification-level pipe (rt/vio) against the standard library's
# io/pipe.go as virtualised by vsrewrite (viogen): for every script both are
# explored under all interleavings (preemption bound 2) and the sets of
# observable outcomes must be equal. Exit 0 = equivalent on everything explored.
set -e
cd /verif
export GOFLAGS=-mod=mod GOPROXY=off GOSUMDB=off GOTOOLCHAIN=local
W=.work/pipeeq-$$
mkdir -p $W
trap "rm -rf $W" EXIT
bin/vsrewrite -out $PWD/$W >/dev/null
(cd /repo && go build -overlay /verif/$W/overlay.json -o /verif/$W/pipeeq.bin ./zz_verif/h/pipeeq)
timeout 1200 $W/pipeeq.bin -tier quick -obshashes -maxviol 5 -out $W/report.json >/dev/null || true
python3 - $W/report.json <<'PY'
import json,sys
r=json.load(open(sys.argv[1]))
by={}
for s in r['scenarios']:
    kind,rest=s['name'].split('/',1)
    by.setdefault(rest,{})[kind]=(set(s.get('obs_hashes') or []), s['exhaustive'])
bad=0
for k,v in sorted(by.items()):
    if 'spec' not in v or 'gen' not in v: continue
    if v['spec'][0]!=v['gen'][0] or not v['spec'][1] or not v['gen'][1]:
        bad+=1
        print("DIFFERENT outcome sets for script", k, "spec-only:", len(v['spec'][0]-v['gen'][0]), "stdlib-only:", len(v['gen'][0]-v['spec'][0]))
print("pipe equivalence: %d scripts, %d executions, %d with different outcome sets" % (len(by), r['executions'], bad))
sys.exit(1 if bad else 0)
PY
