#!/bin/bash
# Guard for the virtualiser: the repository's own tests must pass against the
# REWRITTEN packages in pass-through mode (vs operations map 1:1 to native ones).
set -e
cd /verif
export GOFLAGS=-mod=mod GOPROXY=off GOSUMDB=off GOTOOLCHAIN=local
W=.work/selftest-$$
mkdir -p $W; trap "rm -rf $W" EXIT
bin/vsrewrite -out $PWD/$W >/dev/null
cd /repo
go test -overlay /verif/$W/overlay.json -vet=off -count=1 ./agent/banner/... ./agent/metrics/... ./agent/sessions/... ./agent/utils/... ./agent/websockets/... ./utils/...
