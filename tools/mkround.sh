#!/bin/bash
# usage: mkround.sh <dir> [ids...]
# Prepares a round of seeded-change production: one scratch worktree of /repo HEAD per property under
# <dir>/Cxx, and <dir>/Cxx-out/{PROPERTY.txt,PROMPT.txt}. The prompt carries only the property text and
# one-line descriptions of the changes already stored under /verif/seeded (so that they are not repeated).
DIR=$1; shift
IDS=${@:-$(seq -f "C%02g" 1 20)}
mkdir -p $DIR
for ID in $IDS; do
  WT=$DIR/$ID; OUT=$DIR/$ID-out
  [ -d $WT ] || git -C /repo worktree add -q --detach $WT HEAD
  mkdir -p $OUT
  python3 - "$ID" "$WT" "$OUT" <<'PY'
import json,sys,glob,os
ID,WT,OUT=sys.argv[1:4]
prop=None
for l in open('/verif/properties.jsonl'):
    p=json.loads(l)
    if p['id']==ID: prop=p
open(OUT+'/PROPERTY.txt','w').write("ID: %s\nTitle: %s\nStatement: %s\nQuantifier: %s\nWhy the existing tests cannot settle it: %s\nFiles involved: %s\n"%(ID,prop['title'],prop['statement'],prop['quantifier']['text'],prop['why_tests_cant'],', '.join(prop['anchors']['files'])))
taken=[]
for d in sorted(glob.glob('/verif/seeded/%s-*'%ID)):
    try:
        m=json.load(open(d+'/meta.json'))
        taken.append('- '+m['summary'][:420].replace('\n',' '))
    except Exception: pass
t=open('/verif/tools/seedprompt.txt').read().replace('@WT@',WT).replace('@OUT@',OUT).replace('@ID@',ID)
if taken:
    t+="\n\nIMPORTANT - already taken: the following changes have been produced by someone else before. Do NOT repeat them or minor variants of them; find changes at DIFFERENT code sites (prefer files and functions none of them touches) or with a different mechanism and a different triggering condition (prefer, where the property allows it, triggers that need a particular goroutine interleaving, a fault at a particular point, or a multi-step history rather than a single unusual input):\n"+"\n".join(taken)
t+="\n\nNote: the repository HEAD already contains several recent bug-fix commits (see `git log`); build on the code as it is now.\n"
open(OUT+'/PROMPT.txt','w').write(t)
PY
done
echo "prepared: $IDS in $DIR"
