#!/usr/bin/env python3
"""Writes seeded/RESULTS.md from the stored seeded changes and their check results."""
import json, glob, os
rows = []
for d in sorted(glob.glob('/verif/seeded/*/')):
    sid = os.path.basename(d.rstrip('/'))
    try:
        meta = json.load(open(d + 'meta.json'))
    except Exception:
        meta = {}
    try:
        res = json.load(open(d + 'check_result.json'))
    except Exception:
        res = {}
    rows.append((sid, meta.get('summary', '')[:160].replace('\n', ' ').replace('|', '/'), meta.get('needs', '')[:140].replace('\n', ' ').replace('|', '/'),
                 'yes' if res.get('detected') else ('no' if res else 'not run'), res.get('first_violation', '').strip()[:150].replace('|', '/')))
with open('/verif/seeded/RESULTS.md', 'w') as f:
    f.write('# Seeded property-breaking changes and the checks that report them\n\n')
    f.write('Each change keeps the 36 baseline tests green (confirmed in a scratch worktree by tools/confirmseed.sh); '
            '`detected` is the result of `bin/vcheck -tier quick <property>` with the change applied to /repo (tools/seedmatrix.sh).\n\n')
    f.write('| seed | change | needs | detected | first violation reported |\n|---|---|---|---|---|\n')
    for r in rows:
        f.write('| %s | %s | %s | %s | %s |\n' % r)
    n = sum(1 for r in rows if r[3] == 'yes')
    f.write('\n%d of %d stored changes are reported by the quick check of their property.\n' % (n, len(rows)))
print(open('/verif/seeded/RESULTS.md').read()[-200:])
