#!/bin/bash
# Runs every stored seeded change against the quick check of its property and
# records the outcome in seeded/<id>/check_result.json. /repo must be clean.
cd /verif
for d in ${SEEDS:-seeded/*/}; do
  id=$(basename $d); prop=${id%%-*}; n=${id##*-}
  MUTDIR=/tmp/mut; if [ "$n" -gt 8 ]; then MUTDIR=/tmp/mut5; n=$((n-8)); elif [ "$n" -gt 6 ]; then MUTDIR=/tmp/mut4; n=$((n-6)); elif [ "$n" -gt 4 ]; then MUTDIR=/tmp/mut3; n=$((n-4)); elif [ "$n" -gt 2 ]; then MUTDIR=/tmp/mut2; n=$((n-2)); fi
  P=$d/patch.diff
  if ! git -C /repo apply --check $P 2>/dev/null; then
    R=$MUTDIR/$prop-out/patch$n.rebased.diff
    [ -f $R ] || /verif/tools/rebaseseed.sh $MUTDIR/$prop-out/patch$n.diff $R >/dev/null 2>&1
    if [ -f $R ] && git -C /repo apply --check $R 2>/dev/null; then
      [ -f $d/patch.original-base.diff ] || cp $P $d/patch.original-base.diff
      cp $R $P
    else
      echo "$id: patch does not apply to HEAD"; continue
    fi
  fi
  out=$(timeout 1500 tools/tryseed.sh $PWD/$P $prop 2>&1)
  rc=$(echo "$out" | grep -o 'rc=[0-9]*' | tail -1)
  viol=$(echo "$out" | grep -v KNOWN-FINDING | grep -m1 "^  $prop \[" | cut -c1-400)
  python3 - "$d" "$prop" "$rc" "$viol" <<'PY'
import json,sys
d,prop,rc,viol=sys.argv[1:5]
json.dump({"property":prop,"check":"bin/vcheck -tier quick "+prop,"exit":rc,"detected":rc=="rc=1","first_violation":viol},open(d+"/check_result.json","w"),indent=1)
PY
  echo "$id: $rc $viol" | cut -c1-200
done
