#!/bin/bash
# usage: confirmseed.sh <Cxx> <n>
# Confirms a sub-agent's seeded change in its scratch worktree /tmp/mut/Cxx:
# builds, existing suite passes, demo fails with the change and passes without.
# On success stores it as /verif/seeded/Cxx-n/.
ID=$1; N=$2; SN=${3:-$2}
MUT=${MUT:-/tmp/mut}; SUF=${SUF:-}
WT=$MUT/$ID; OUT=$MUT/$ID-out
export GOFLAGS=-mod=mod GOPROXY=off GOSUMDB=off GOTOOLCHAIN=local
[ -f $OUT/patch$N.diff ] || { echo "$ID-$N: no patch"; exit 2; }
cd $WT || exit 2
git checkout -q -- . ; git clean -fdq
DEMO=$(python3 -c "import json;print(json.load(open('$OUT/meta$N.json'))['demo_cmd'])")
git apply $OUT/patch$N.diff || { echo "$ID-$N: patch does not apply in worktree"; exit 2; }
BUILD=ok; go build ./... >/dev/null 2>&1 || BUILD=fail
SUITE=pass; timeout 900 go test -vet=off -count=1 ./agent/banner/... ./agent/metrics/... ./agent/sessions/... ./agent/utils/... ./agent/websockets/... ./utils/... >$MUT/$ID-suite$N.log 2>&1 || SUITE=fail
WITH=pass; (cd $OUT && timeout 900 bash -c "$DEMO") >$MUT/$ID-demo$N-with.log 2>&1 || WITH=fail
git apply -R $OUT/patch$N.diff
WITHOUT=pass; (cd $OUT && timeout 900 bash -c "$DEMO") >$MUT/$ID-demo$N-without.log 2>&1 || WITHOUT=fail
git checkout -q -- . ; git clean -fdq
APPLIES=yes; STORE=$OUT/patch$N.diff
if ! git -C /repo apply --check $OUT/patch$N.diff 2>/dev/null; then
  if [ -f $OUT/patch$N.rebased.diff ] && git -C /repo apply --check $OUT/patch$N.rebased.diff 2>/dev/null; then STORE=$OUT/patch$N.rebased.diff; APPLIES=rebased; else APPLIES=no; fi
fi
git -C $WT checkout -q -- . ; git -C $WT clean -fdq
echo "$ID-$N: build=$BUILD suite=$SUITE demo_with_change=$WITH demo_without=$WITHOUT applies_to_repo_head=$APPLIES"
if [ $BUILD = ok ] && [ $SUITE = pass ] && [ $WITH = fail ] && [ $WITHOUT = pass ] && [ $APPLIES != no ]; then
  D=/verif/seeded/$ID-$SN; mkdir -p $D
  cp $STORE $D/patch.diff; [ $APPLIES = rebased ] && cp $OUT/patch$N.diff $D/patch.original-base.diff
  for f in $OUT/demo$N*; do cp -r $f $D/; done
  python3 - <<PY
import json
m=json.load(open('$OUT/meta$N.json'))
m['confirmed']={'by':'tools/confirmseed.sh in scratch worktree $WT','build':'$BUILD','existing_suite':'$SUITE','demo_with_change':'$WITH','demo_without_change':'$WITHOUT','suite_cmd':'go test -vet=off -count=1 ./agent/banner/... ./agent/metrics/... ./agent/sessions/... ./agent/utils/... ./agent/websockets/... ./utils/...'}
json.dump(m,open('$D/meta.json','w'),indent=1)
PY
  echo "$ID-$N: stored in $D"
fi
