#!/bin/bash
# Runs every registered check of a tier and prints one line per property.
T=${1:-quick}
cd "$(dirname "$0")/.."
# IDS="C11 C12" restricts the run to those properties
for p in ${IDS:-$(python3 -c "import json;print(' '.join(c['property_id'] for c in json.load(open('MANIFEST.json'))['checks']))")}; do
  s=$(date +%s)
  out=$(timeout 7200 bin/vcheck -tier $T $p 2>&1); rc=$?
  e=$(( $(date +%s) - s ))
  echo "$p rc=$rc ${e}s $(echo "$out" | grep -c '^KNOWN-FINDING') known | $(echo "$out" | grep "^$p $T" | cut -c1-160)"
  echo "$out" | grep -E "^VIOLATION|^note:" | cut -c1-300
done
