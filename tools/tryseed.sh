#!/bin/bash
# usage: tryseed.sh <patch> <property> [tier]
# Runs the property's check against a scratch worktree of /repo HEAD with the patch applied
# (VERIF_REPO), so that /repo itself stays untouched and other checks can run meanwhile; the
# worktree is removed afterwards. Evidence and replay files of such runs go to a scratch directory.
# TRYSEED_INPLACE=1 applies the patch to /repo instead (git apply / run / git checkout).
P=$(readlink -f "$1"); PROP=$2; TIER=${3:-quick}
cd /verif
if [ -n "$TRYSEED_INPLACE" ]; then
  cd /repo || exit 2
  if ! git diff --quiet; then echo "/repo has local changes; refusing"; exit 2; fi
  git apply "$P" || { echo "patch does not apply"; exit 2; }
  cd /verif
  timeout 3000 bin/vcheck -tier "$TIER" "$PROP" 2>&1 | grep -v "^note: harness.*skipped" | cut -c1-420 | tail -12
  echo "rc=${PIPESTATUS[0]}"
  git -C /repo checkout -- . && git -C /repo clean -fdq
  exit 0
fi
WT=/tmp/seedwt-$$; OUT=/tmp/seedout-$$
git -C /repo worktree add -q --detach $WT HEAD || exit 2
trap 'git -C /repo worktree remove --force $WT >/dev/null 2>&1; rm -rf $OUT' EXIT
git -C $WT apply "$P" || { echo "patch does not apply"; exit 2; }
VERIF_REPO=$WT VERIF_SCRATCH_OUT=$OUT timeout 3000 bin/vcheck -tier "$TIER" "$PROP" 2>&1 | grep -v "^note: harness.*skipped" | cut -c1-420 | tail -12
echo "rc=${PIPESTATUS[0]}"
