#!/bin/bash
# usage: tryseed.sh <patch> <property> [tier]   -- applies the patch to /repo, runs the check, reverts
P=$1; PROP=$2; TIER=${3:-quick}
cd /repo || exit 2
if ! git diff --quiet; then echo "/repo has local changes; refusing"; exit 2; fi
git apply "$P" || { echo "patch does not apply"; exit 2; }
cd /verif
timeout 3000 bin/vcheck -tier "$TIER" "$PROP" 2>&1 | grep -v "^note: harness.*skipped" | cut -c1-420 | tail -12
echo "rc=${PIPESTATUS[0]}"
git -C /repo checkout -- . && git -C /repo clean -fdq
