#!/bin/bash
# usage: rebaseseed.sh <patch> <out-patch>
# Re-creates a seeded patch on top of /repo's HEAD when fix commits touched the same lines:
# 3-way apply, conflict blocks resolved to the seeded side, must still build.
P=$1; OUT=$2
cd /repo || exit 2
git diff --quiet || { echo "/repo dirty"; exit 2; }
if git apply --check "$P" 2>/dev/null; then cp "$P" "$OUT"; echo "applies cleanly"; exit 0; fi
git apply --3way "$P" >/dev/null 2>&1
for f in $(git diff --name-only --diff-filter=U); do
python3 - "$f" <<'PY'
import sys,re
p=sys.argv[1]
s=open(p).read()
out=[];mode=None
for line in s.split('\n'):
    if line.startswith('<<<<<<< '): mode='ours'; continue
    if line.startswith('=======') and mode=='ours': mode='theirs'; continue
    if line.startswith('>>>>>>> ') and mode=='theirs': mode=None; continue
    if mode=='ours': continue
    out.append(line)
open(p,'w').write('\n'.join(out))
PY
git add "$f"
done
git reset -q
export GOFLAGS=-mod=mod GOPROXY=off GOSUMDB=off GOTOOLCHAIN=local
if go build ./agent/... ./server/... ./app/... ./utils/... >/dev/null 2>&1; then git diff > "$OUT"; echo "rebased -> $OUT"; RC=0; else echo "rebased patch does not build"; RC=1; fi
git checkout -q -- . ; git clean -fdq
exit $RC
