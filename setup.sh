#!/bin/bash
# Builds the framework from files on disk only (offline) and pre-warms the Go
# build cache so that per-check rebuilds are incremental.
set -e
cd "$(dirname "$0")"
export GOFLAGS=-mod=mod GOPROXY=off GOSUMDB=off GOTOOLCHAIN=local
REPO=${VERIF_REPO:-/repo}
mkdir -p bin evidence replays .work
(cd src && go build -o ../bin/vsrewrite ./cmd/vsrewrite && go build -o ../bin/vcheck ./cmd/vcheck)
# warm: virtualise the tree once and build every harness, and the two programs the black-box rig runs
H=.work/setup-$$
mkdir -p "$H"
if bin/vsrewrite -repo "$REPO" -rt "$PWD/rt" -harness "$PWD/harness" -out "$PWD/$H/rw" >"$H/rw.log" 2>&1; then
  for d in harness/*/; do
    n=$(basename "$d")
    (cd "$REPO" && go build -overlay "$OLDPWD/$H/rw/overlay.json" -o /dev/null "./zz_verif/h/$n" >>"$OLDPWD/$H/build.log" 2>&1) || echo "setup: harness $n did not build (see $H/build.log)"
  done
else
  echo "setup: virtualisation failed:"; tail -5 "$H/rw.log"
fi
if bin/vsrewrite -repo "$REPO" -rt "$PWD/rt" -harness "$PWD/harness" -norewrite -out "$PWD/$H/plain" >>"$H/rw.log" 2>&1; then
  (cd "$REPO" && go build -overlay "$OLDPWD/$H/plain/overlay.json" -o /dev/null ./zz_verif/h/bbox >>"$OLDPWD/$H/build.log" 2>&1) || true
  (cd "$REPO" && go build -overlay "$OLDPWD/$H/plain/overlay.json" -o /dev/null ./zz_verif/h/bboxbridge >>"$OLDPWD/$H/build.log" 2>&1) || true
  (cd "$REPO" && go build -overlay "$OLDPWD/$H/plain/overlay.json" -o /dev/null ./zz_verif/h/bboxagent >>"$OLDPWD/$H/build.log" 2>&1) || true
fi
(cd "$REPO" && go build -o /dev/null ./server && go build -o /dev/null ./agent && go build -o /dev/null ./utils/tcpbridge/tcp-bridge-frontend && go build -o /dev/null ./utils/tcpbridge/tcp-bridge-backend) || true
rm -rf "$H"
echo "setup done"
