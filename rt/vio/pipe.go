// Package vio is a specification-level rendering of io.Pipe on the vs
// scheduler: a synchronous in-memory pipe with one scheduling point per Read
// and two per Write (become the writer; wait until the data is consumed).
// Close* are release operations. In pass-through mode it is io.Pipe itself.
//
// Its observable behaviour is checked against the standard library's own
// pipe.go, virtualised by vsrewrite (package viogen), by tools/pipeeq.sh: 80
// scripts of up to 2 writers x 2 readers x close variants, all interleavings up
// to preemption bound 2, equal sets of outcomes - except one script with two
// writers queued on the pipe, where the standard library lets the second writer
// hand one more piece to a reader that was already waiting when the pipe was
// closed. Nothing in the repository writes to one pipe from two goroutines.
package vio

import (
	"io"
	"unsafe"

	"github.com/google/inverting-proxy/zz_verif/vs"
)

var ErrClosedPipe = io.ErrClosedPipe

type pipe struct {
	native     bool
	nr         *io.PipeReader
	nw         *io.PipeWriter
	writing    bool   // a writer owns the pipe
	offered    bool   // the writer's data is visible to readers
	data       []byte // remaining offered bytes
	done       bool
	rerr, werr error
}

func (p *pipe) readCloseError() error {
	if p.rerr == nil && p.werr != nil {
		return p.werr
	}
	return ErrClosedPipe
}

func (p *pipe) writeCloseError() error {
	if p.werr == nil && p.rerr != nil {
		return p.rerr
	}
	return ErrClosedPipe
}

func (p *pipe) read(b []byte) (int, error) {
	if vs.Aborting() {
		return 0, ErrClosedPipe
	}
	vs.Wait("pipe.Read", unsafe.Pointer(p), func() bool { return p.done || p.offered })
	if p.done {
		return 0, p.readCloseError()
	}
	n := copy(b, p.data)
	p.data = p.data[n:]
	// every Read consumes the current offer of the writer's loop iteration
	p.offered = false
	vs.Event("pipe.consumed", unsafe.Pointer(p), false, true)
	return n, nil
}

func (p *pipe) write(b []byte) (n int, err error) {
	if vs.Aborting() {
		return 0, ErrClosedPipe
	}
	vs.Wait("pipe.Write", unsafe.Pointer(p), func() bool { return p.done || !p.writing })
	if p.done {
		return 0, p.writeCloseError()
	}
	p.writing = true
	defer func() {
		p.writing = false
		vs.Event("pipe.unlock", unsafe.Pointer(p), false, true)
	}()
	total := len(b)
	p.data = b
	for once := true; once || len(p.data) > 0; once = false {
		p.offered = true
		vs.Event("pipe.offer", unsafe.Pointer(p), false, true)
		vs.Wait("pipe.Write(wait-consumed)", unsafe.Pointer(p), func() bool { return p.done || !p.offered })
		if p.offered {
			// closed before the reader took it
			p.offered = false
			n = total - len(p.data)
			p.data = nil
			return n, p.writeCloseError()
		}
	}
	p.data = nil
	return total, nil
}

func (p *pipe) closeRead(err error) error {
	if vs.Active() && !vs.Aborting() {
		vs.Point("pipe.CloseRead", unsafe.Pointer(p))
	}
	if err == nil {
		err = ErrClosedPipe
	}
	if p.rerr == nil {
		p.rerr = err
	}
	p.done = true
	vs.Event("pipe.closeRead", unsafe.Pointer(p), false, true)
	vs.After("pipe.CloseRead(done)", unsafe.Pointer(p))
	return nil
}

func (p *pipe) closeWrite(err error) error {
	if vs.Active() && !vs.Aborting() {
		vs.Point("pipe.CloseWrite", unsafe.Pointer(p))
	}
	if err == nil {
		err = io.EOF
	}
	if p.werr == nil {
		p.werr = err
	}
	p.done = true
	vs.Event("pipe.closeWrite", unsafe.Pointer(p), false, true)
	vs.After("pipe.CloseWrite(done)", unsafe.Pointer(p))
	return nil
}

// PipeReader mirrors io.PipeReader.
type PipeReader struct{ p *pipe }

func (r *PipeReader) Read(data []byte) (int, error) {
	if r.p.native {
		return r.p.nr.Read(data)
	}
	return r.p.read(data)
}
func (r *PipeReader) Close() error { return r.CloseWithError(nil) }
func (r *PipeReader) CloseWithError(err error) error {
	if r.p.native {
		return r.p.nr.CloseWithError(err)
	}
	return r.p.closeRead(err)
}

// PipeWriter mirrors io.PipeWriter.
type PipeWriter struct{ p *pipe }

func (w *PipeWriter) Write(data []byte) (int, error) {
	if w.p.native {
		return w.p.nw.Write(data)
	}
	return w.p.write(data)
}
func (w *PipeWriter) Close() error { return w.CloseWithError(nil) }
func (w *PipeWriter) CloseWithError(err error) error {
	if w.p.native {
		return w.p.nw.CloseWithError(err)
	}
	return w.p.closeWrite(err)
}

// Pipe mirrors io.Pipe.
func Pipe() (*PipeReader, *PipeWriter) {
	p := &pipe{}
	if !vs.Active() {
		p.native = true
		p.nr, p.nw = io.Pipe()
	}
	return &PipeReader{p}, &PipeWriter{p}
}
