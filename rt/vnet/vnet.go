// Package vnet is an in-memory rendering of TCP's observable contract: ordered
// bytes, EOF after the peer's close once drained, writes to a closed peer
// fail. Socket buffers are unbounded.
package vnet

import (
	"errors"
	"fmt"
	"io"
	"net"
	"time"
	"unsafe"

	"github.com/google/inverting-proxy/zz_verif/vs"
)

type addr string

func (a addr) Network() string { return "tcp" }
func (a addr) String() string  { return string(a) }

type half struct {
	buf     []byte
	wclosed bool // writer closed: reader sees EOF once drained
	rclosed bool // reader closed: writes fail
}

// Conn is one end of an in-memory stream.
type Conn struct {
	rd, wr        *half
	local, remote addr
	closed        bool
	Name          string
}

// World is the per-execution registry of listeners and open connections.
type World struct {
	owner     *vs.Sched
	listeners map[string]*Listener
	Open      int
	nextPort  int
	Conns     []*Conn
}

var world *World

// W returns the registry of the current execution.
func W() *World {
	if world == nil || world.owner != vs.S {
		world = &World{owner: vs.S, listeners: map[string]*Listener{}, nextPort: 40000}
	}
	return world
}

// Pipe returns a connected pair.
func Pipe(a, b string) (*Conn, *Conn) {
	h1, h2 := &half{}, &half{}
	c1 := &Conn{rd: h1, wr: h2, local: addr(a), remote: addr(b), Name: a + "->" + b}
	c2 := &Conn{rd: h2, wr: h1, local: addr(b), remote: addr(a), Name: b + "->" + a}
	w := W()
	w.Open += 2
	w.Conns = append(w.Conns, c1, c2)
	return c1, c2
}

func (c *Conn) Read(p []byte) (int, error) {
	if vs.Aborting() {
		return 0, io.ErrClosedPipe
	}
	if len(p) == 0 {
		return 0, nil
	}
	vs.Wait("net.Read "+c.Name, unsafe.Pointer(c.rd), func() bool {
		return len(c.rd.buf) > 0 || c.rd.wclosed || c.closed
	})
	if c.closed {
		return 0, fmt.Errorf("read %s: use of closed network connection", c.Name)
	}
	if len(c.rd.buf) == 0 {
		return 0, io.EOF
	}
	n := copy(p, c.rd.buf)
	c.rd.buf = c.rd.buf[n:]
	return n, nil
}

func (c *Conn) Write(p []byte) (int, error) {
	if vs.Aborting() {
		return 0, io.ErrClosedPipe
	}
	vs.Point("net.Write "+c.Name, unsafe.Pointer(c.wr))
	if c.closed {
		return 0, fmt.Errorf("write %s: use of closed network connection", c.Name)
	}
	if c.wr.rclosed {
		return 0, fmt.Errorf("write %s: broken pipe", c.Name)
	}
	c.wr.buf = append(c.wr.buf, p...)
	return len(p), nil
}

func (c *Conn) Close() error {
	if vs.Active() && !vs.Aborting() {
		vs.Point("net.Close "+c.Name, unsafe.Pointer(c.wr))
	}
	if c.closed {
		return errors.New("use of closed network connection")
	}
	c.closed = true
	c.wr.wclosed = true
	c.rd.rclosed = true
	if vs.Active() {
		W().Open--
		vs.Event("net.Close", unsafe.Pointer(c.wr), false, true)
		vs.Event("net.Close", unsafe.Pointer(c.rd), false, true)
	}
	return nil
}

// CloseWrite half-closes the connection.
func (c *Conn) CloseWrite() error {
	if vs.Active() && !vs.Aborting() {
		vs.Point("net.CloseWrite "+c.Name, unsafe.Pointer(c.wr))
	}
	c.wr.wclosed = true
	vs.Event("net.CloseWrite", unsafe.Pointer(c.wr), false, true)
	return nil
}

// Closed reports whether this end was closed.
func (c *Conn) Closed() bool { return c.closed }

func (c *Conn) LocalAddr() net.Addr                { return c.local }
func (c *Conn) RemoteAddr() net.Addr               { return c.remote }
func (c *Conn) SetDeadline(t time.Time) error      { return nil }
func (c *Conn) SetReadDeadline(t time.Time) error  { return nil }
func (c *Conn) SetWriteDeadline(t time.Time) error { return nil }

// Listener is an in-memory net.Listener.
type Listener struct {
	a       addr
	pending []*Conn
	closed  bool
}

func (l *Listener) Accept() (net.Conn, error) {
	if vs.Aborting() {
		return nil, io.ErrClosedPipe
	}
	vs.Wait("net.Accept "+string(l.a), unsafe.Pointer(l), func() bool { return len(l.pending) > 0 || l.closed })
	if l.closed {
		return nil, errors.New("use of closed network connection")
	}
	c := l.pending[0]
	l.pending = l.pending[1:]
	return c, nil
}

func (l *Listener) Close() error {
	l.closed = true
	vs.Event("net.ListenerClose", unsafe.Pointer(l), false, true)
	return nil
}

func (l *Listener) Addr() net.Addr { return l.a }

func norm(address string) string {
	host, port, err := net.SplitHostPort(address)
	if err != nil {
		return address
	}
	if host == "" || host == "localhost" || host == "127.0.0.1" || host == "::" || host == "[::]" || host == "0.0.0.0" {
		host = "localhost"
	}
	return host + ":" + port
}

func Listen(network, address string) (net.Listener, error) {
	if !vs.Active() {
		return net.Listen(network, address)
	}
	w := W()
	a := norm(address)
	if _, port, err := net.SplitHostPort(a); err == nil && port == "0" {
		w.nextPort++
		a = fmt.Sprintf("localhost:%d", w.nextPort)
	}
	if _, ok := w.listeners[a]; ok {
		return nil, fmt.Errorf("listen tcp %s: address already in use", address)
	}
	l := &Listener{a: addr(a)}
	w.listeners[a] = l
	return l, nil
}

// Dialed records every address passed to Dial in this execution.
func (w *World) dial(address string) (net.Conn, error) {
	a := norm(address)
	l := w.listeners[a]
	if l == nil || l.closed {
		return nil, fmt.Errorf("dial tcp %s: connect: connection refused", address)
	}
	w.nextPort++
	c, s := Pipe(fmt.Sprintf("localhost:%d", w.nextPort), a)
	l.pending = append(l.pending, s)
	vs.Event("net.Dial", unsafe.Pointer(l), false, true)
	return c, nil
}

func Dial(network, address string) (net.Conn, error) {
	if !vs.Active() {
		return net.Dial(network, address)
	}
	vs.Point("net.Dial "+address, nil)
	return W().dial(address)
}

func DialTimeout(network, address string, d time.Duration) (net.Conn, error) {
	if !vs.Active() {
		return net.DialTimeout(network, address, d)
	}
	return Dial(network, address)
}
