// Package vatomic mirrors sync/atomic on top of the vs scheduler: every
// operation is a scheduling point and a synchronising event on its address.
package vatomic

import (
	"sync/atomic"
	"unsafe"

	"github.com/google/inverting-proxy/zz_verif/vs"
)

func pt(op string, p unsafe.Pointer) {
	if vs.Active() {
		vs.Point("atomic."+op, p)
	}
}

func AddInt32(a *int32, d int32) int32 { pt("Add", unsafe.Pointer(a)); return atomic.AddInt32(a, d) }
func AddInt64(a *int64, d int64) int64 { pt("Add", unsafe.Pointer(a)); return atomic.AddInt64(a, d) }
func AddUint32(a *uint32, d uint32) uint32 {
	pt("Add", unsafe.Pointer(a))
	return atomic.AddUint32(a, d)
}
func AddUint64(a *uint64, d uint64) uint64 {
	pt("Add", unsafe.Pointer(a))
	return atomic.AddUint64(a, d)
}
func LoadInt32(a *int32) int32          { pt("Load", unsafe.Pointer(a)); return atomic.LoadInt32(a) }
func LoadInt64(a *int64) int64          { pt("Load", unsafe.Pointer(a)); return atomic.LoadInt64(a) }
func LoadUint32(a *uint32) uint32       { pt("Load", unsafe.Pointer(a)); return atomic.LoadUint32(a) }
func LoadUint64(a *uint64) uint64       { pt("Load", unsafe.Pointer(a)); return atomic.LoadUint64(a) }
func StoreInt32(a *int32, v int32)      { pt("Store", unsafe.Pointer(a)); atomic.StoreInt32(a, v) }
func StoreInt64(a *int64, v int64)      { pt("Store", unsafe.Pointer(a)); atomic.StoreInt64(a, v) }
func StoreUint32(a *uint32, v uint32)   { pt("Store", unsafe.Pointer(a)); atomic.StoreUint32(a, v) }
func StoreUint64(a *uint64, v uint64)   { pt("Store", unsafe.Pointer(a)); atomic.StoreUint64(a, v) }
func SwapInt32(a *int32, v int32) int32 { pt("Swap", unsafe.Pointer(a)); return atomic.SwapInt32(a, v) }
func SwapInt64(a *int64, v int64) int64 { pt("Swap", unsafe.Pointer(a)); return atomic.SwapInt64(a, v) }
func SwapUint32(a *uint32, v uint32) uint32 {
	pt("Swap", unsafe.Pointer(a))
	return atomic.SwapUint32(a, v)
}
func SwapUint64(a *uint64, v uint64) uint64 {
	pt("Swap", unsafe.Pointer(a))
	return atomic.SwapUint64(a, v)
}
func CompareAndSwapInt32(a *int32, o, n int32) bool {
	pt("CAS", unsafe.Pointer(a))
	return atomic.CompareAndSwapInt32(a, o, n)
}
func CompareAndSwapInt64(a *int64, o, n int64) bool {
	pt("CAS", unsafe.Pointer(a))
	return atomic.CompareAndSwapInt64(a, o, n)
}
func CompareAndSwapUint32(a *uint32, o, n uint32) bool {
	pt("CAS", unsafe.Pointer(a))
	return atomic.CompareAndSwapUint32(a, o, n)
}
func CompareAndSwapUint64(a *uint64, o, n uint64) bool {
	pt("CAS", unsafe.Pointer(a))
	return atomic.CompareAndSwapUint64(a, o, n)
}

type Bool struct{ v atomic.Bool }

func (b *Bool) Load() bool       { pt("Load", unsafe.Pointer(b)); return b.v.Load() }
func (b *Bool) Store(x bool)     { pt("Store", unsafe.Pointer(b)); b.v.Store(x) }
func (b *Bool) Swap(x bool) bool { pt("Swap", unsafe.Pointer(b)); return b.v.Swap(x) }
func (b *Bool) CompareAndSwap(o, n bool) bool {
	pt("CAS", unsafe.Pointer(b))
	return b.v.CompareAndSwap(o, n)
}

type Int32 struct{ v atomic.Int32 }

func (b *Int32) Load() int32        { pt("Load", unsafe.Pointer(b)); return b.v.Load() }
func (b *Int32) Store(x int32)      { pt("Store", unsafe.Pointer(b)); b.v.Store(x) }
func (b *Int32) Add(x int32) int32  { pt("Add", unsafe.Pointer(b)); return b.v.Add(x) }
func (b *Int32) Swap(x int32) int32 { pt("Swap", unsafe.Pointer(b)); return b.v.Swap(x) }
func (b *Int32) CompareAndSwap(o, n int32) bool {
	pt("CAS", unsafe.Pointer(b))
	return b.v.CompareAndSwap(o, n)
}

type Int64 struct{ v atomic.Int64 }

func (b *Int64) Load() int64        { pt("Load", unsafe.Pointer(b)); return b.v.Load() }
func (b *Int64) Store(x int64)      { pt("Store", unsafe.Pointer(b)); b.v.Store(x) }
func (b *Int64) Add(x int64) int64  { pt("Add", unsafe.Pointer(b)); return b.v.Add(x) }
func (b *Int64) Swap(x int64) int64 { pt("Swap", unsafe.Pointer(b)); return b.v.Swap(x) }
func (b *Int64) CompareAndSwap(o, n int64) bool {
	pt("CAS", unsafe.Pointer(b))
	return b.v.CompareAndSwap(o, n)
}

type Uint32 struct{ v atomic.Uint32 }

func (b *Uint32) Load() uint32         { pt("Load", unsafe.Pointer(b)); return b.v.Load() }
func (b *Uint32) Store(x uint32)       { pt("Store", unsafe.Pointer(b)); b.v.Store(x) }
func (b *Uint32) Add(x uint32) uint32  { pt("Add", unsafe.Pointer(b)); return b.v.Add(x) }
func (b *Uint32) Swap(x uint32) uint32 { pt("Swap", unsafe.Pointer(b)); return b.v.Swap(x) }
func (b *Uint32) CompareAndSwap(o, n uint32) bool {
	pt("CAS", unsafe.Pointer(b))
	return b.v.CompareAndSwap(o, n)
}

type Uint64 struct{ v atomic.Uint64 }

func (b *Uint64) Load() uint64         { pt("Load", unsafe.Pointer(b)); return b.v.Load() }
func (b *Uint64) Store(x uint64)       { pt("Store", unsafe.Pointer(b)); b.v.Store(x) }
func (b *Uint64) Add(x uint64) uint64  { pt("Add", unsafe.Pointer(b)); return b.v.Add(x) }
func (b *Uint64) Swap(x uint64) uint64 { pt("Swap", unsafe.Pointer(b)); return b.v.Swap(x) }
func (b *Uint64) CompareAndSwap(o, n uint64) bool {
	pt("CAS", unsafe.Pointer(b))
	return b.v.CompareAndSwap(o, n)
}

type Value struct{ v atomic.Value }

func (b *Value) Load() interface{}              { pt("Load", unsafe.Pointer(b)); return b.v.Load() }
func (b *Value) Store(x interface{})            { pt("Store", unsafe.Pointer(b)); b.v.Store(x) }
func (b *Value) Swap(x interface{}) interface{} { pt("Swap", unsafe.Pointer(b)); return b.v.Swap(x) }
func (b *Value) CompareAndSwap(o, n interface{}) bool {
	pt("CAS", unsafe.Pointer(b))
	return b.v.CompareAndSwap(o, n)
}

type Pointer[T any] struct{ v atomic.Pointer[T] }

func (b *Pointer[T]) Load() *T     { pt("Load", unsafe.Pointer(b)); return b.v.Load() }
func (b *Pointer[T]) Store(x *T)   { pt("Store", unsafe.Pointer(b)); b.v.Store(x) }
func (b *Pointer[T]) Swap(x *T) *T { pt("Swap", unsafe.Pointer(b)); return b.v.Swap(x) }
func (b *Pointer[T]) CompareAndSwap(o, n *T) bool {
	pt("CAS", unsafe.Pointer(b))
	return b.v.CompareAndSwap(o, n)
}
