package vx

import (
	"fmt"
	"os"
	"path/filepath"
	"sync/atomic"
	"syscall"
	"time"
	"unsafe"
)

// shmTable is a fixed-size open-addressing hash set of visited state keys that
// all worker processes of one exploration share through a memory-mapped file.
// A slot holds the high 56 bits of the key, 4 bits of preemptions used and 4
// bits of deviations used when the state was first reached. Races between
// workers can only lose an insertion or a prune (time), never soundness.
type shmTable struct {
	mem   []byte
	slots uint64
	file  string
}

const probeLen = 32

func shmCreate(bits uint) (*shmTable, error) {
	dir := "/dev/shm"
	if st, err := os.Stat(dir); err != nil || !st.IsDir() {
		dir = os.TempDir()
	}
	// visited sets of runs that were killed before they could clean up: the
	// file name carries the owner's pid
	if old, err := filepath.Glob(filepath.Join(dir, "vx-visited-*")); err == nil {
		for _, o := range old {
			var pid int
			if _, err := fmt.Sscanf(filepath.Base(o), "vx-visited-%d-", &pid); err != nil || pid <= 0 {
				if st, err := os.Stat(o); err == nil && time.Since(st.ModTime()) > 2*time.Hour {
					os.Remove(o)
				}
				continue
			}
			if _, err := os.Stat(fmt.Sprintf("/proc/%d", pid)); err != nil {
				os.Remove(o)
			}
		}
	}
	f, err := os.CreateTemp(dir, fmt.Sprintf("vx-visited-%d-*", os.Getpid()))
	if err != nil {
		return nil, err
	}
	size := int64(8) << bits
	if err := f.Truncate(size); err != nil {
		f.Close()
		os.Remove(f.Name())
		return nil, err
	}
	f.Close()
	return shmOpen(f.Name())
}

func shmOpen(path string) (*shmTable, error) {
	f, err := os.OpenFile(path, os.O_RDWR, 0)
	if err != nil {
		return nil, err
	}
	defer f.Close()
	st, err := f.Stat()
	if err != nil {
		return nil, err
	}
	mem, err := syscall.Mmap(int(f.Fd()), 0, int(st.Size()), syscall.PROT_READ|syscall.PROT_WRITE, syscall.MAP_SHARED)
	if err != nil {
		return nil, fmt.Errorf("mmap %s: %v", path, err)
	}
	return &shmTable{mem: mem, slots: uint64(st.Size() / 8), file: path}, nil
}

func (t *shmTable) clear() {
	for i := range t.mem {
		t.mem[i] = 0
	}
}

func (t *shmTable) close(remove bool) {
	syscall.Munmap(t.mem)
	if remove {
		os.Remove(t.file)
	}
}

func (t *shmTable) slot(i uint64) *uint64 {
	return (*uint64)(unsafe.Pointer(&t.mem[(i%t.slots)*8]))
}

// visit returns (prune, inserted).
func (t *shmTable) visit(key uint64, pre, dev int) (bool, bool) {
	if pre > 15 {
		pre = 15
	}
	if dev > 15 {
		dev = 15
	}
	tag := key &^ 0xff
	if tag == 0 {
		tag = 0x100
	}
	want := tag | uint64(pre)<<4 | uint64(dev)
	h := key * 0x9e3779b97f4a7c15
	for i := uint64(0); i < probeLen; i++ {
		p := t.slot(h + i)
		v := atomic.LoadUint64(p)
		if v == 0 {
			if atomic.CompareAndSwapUint64(p, 0, want) {
				return false, true
			}
			v = atomic.LoadUint64(p)
		}
		if v&^0xff == tag {
			sp, sd := int(v>>4&15), int(v&15)
			if sp <= pre && sd <= dev {
				return true, false
			}
			if pre <= sp && dev <= sd {
				atomic.CompareAndSwapUint64(p, v, want)
			}
			return false, false
		}
	}
	return false, false
}
