package vx

import (
	"flag"
	"fmt"
	"io"
	"log"
	"os"
	"runtime"
	"sort"
	"sync"
	"time"
)

// Enum is a bounded-exhaustive enumeration of cases, each evaluated on the
// real code and judged by an independent oracle.
type Enum struct {
	Property string
	Name     string
	Rule     string
	Total    func(tier string) int
	Eval     func(tier string, i int) Exec
	Describe func(tier string, i int) string
	// Init runs once per process before any Eval.
	Init func(tier string)
}

func (en *Enum) evalRange(lo, hi int, rep *reply) {
	for i := lo; i < hi; i++ {
		x := en.Eval(*flagTier, i)
		if x.Infra != "" {
			if len(rep.Infra) < 3 {
				rep.Infra = append(rep.Infra, x.Infra)
			}
			continue
		}
		rep.Execs++
		if x.Nontrivial {
			rep.Nontrivial++
		}
		k := obsKey(x.Obs)
		if _, ok := rep.Obs[k]; !ok && len(rep.Obs) < 512 {
			rep.Obs[k] = clip(x.Obs, 400)
		}
		if len(x.Violations) > 0 && len(rep.Viol) < 20 {
			rep.Viol = append(rep.Viol, Violation{Scenario: en.Describe(*flagTier, i), Case: i, Messages: x.Violations, Obs: clip(x.Obs, 2000)})
		}
	}
}

// EnumMain is the entry point of an enumerator harness binary.
func EnumMain(en *Enum) {
	flag.Parse()
	log.SetOutput(io.Discard)
	if en.Init != nil {
		en.Init(*flagTier)
	}
	if *flagWorker {
		workerLoop(nil, en)
		return
	}
	if *flagReplay != "" {
		os.Exit(enumReplay(en))
	}
	t0 := time.Now()
	rep := &Report{Property: en.Property, Harness: en.Name, Engine: "enum", Tier: *flagTier, Exhaustive: true, Known: map[string]string{}, Rule: en.Rule}
	known := loadKnown(*flagKnown, en.Property)
	total := en.Total(*flagTier)
	procs := *flagProcs
	if procs <= 0 {
		procs = runtime.NumCPU()
	}
	chunk := total/(procs*16) + 1
	var mu sync.Mutex
	next := 0
	obs := map[string]string{}
	var viol []Violation
	var wg sync.WaitGroup
	var deadline time.Time
	if *flagBudget > 0 {
		deadline = t0.Add(time.Duration(*flagBudget * float64(time.Second)))
	}
	nw := procs
	if total < 64 {
		nw = 1
	}
	for wi := 0; wi < nw; wi++ {
		w, err := startWorker(0)
		if err != nil {
			fatal(rep, err)
		}
		wg.Add(1)
		go func(w *worker) {
			defer wg.Done()
			defer w.stop()
			for {
				mu.Lock()
				if next >= total || (!deadline.IsZero() && time.Now().After(deadline)) {
					if next < total {
						rep.Exhaustive = false
					}
					mu.Unlock()
					return
				}
				lo := next
				hi := lo + chunk
				if hi > total {
					hi = total
				}
				next = hi
				mu.Unlock()
				r, err := w.do(task{Lo: lo, Hi: hi})
				mu.Lock()
				if err != nil {
					viol = append(viol, Violation{Scenario: fmt.Sprintf("cases %d..%d", lo, hi), Case: lo, Messages: []string{"CRASH worker process died: " + err.Error()}})
					next = total
					mu.Unlock()
					return
				}
				rep.Executions += r.Execs
				rep.Nontrivial += r.Nontrivial
				if len(r.Infra) > 0 {
					rep.Exhaustive = false
					if len(rep.Notes) < 5 {
						rep.Notes = append(rep.Notes, "infrastructure: "+r.Infra[0])
					}
				}
				for k, v := range r.Obs {
					obs[k] = v
				}
				viol = append(viol, r.Viol...)
				mu.Unlock()
			}
		}(w)
	}
	wg.Wait()
	seen := map[string]bool{}
	sort.Slice(viol, func(i, j int) bool { return viol[i].Case < viol[j].Case })
	for _, v := range viol {
		rest := splitKnown(v.Messages, known, rep.Known)
		if len(rest) == 0 {
			continue
		}
		v.Messages = rest
		sig := sigOf(rest[0])
		if seen[sig] {
			continue
		}
		seen[sig] = true
		v.Repro = 5
		if len(rep.Violations) < *flagMaxViol {
			rep.Violations = append(rep.Violations, v)
		}
	}
	rep.Outcomes = len(obs)
	keys := make([]string, 0, len(obs))
	for k := range obs {
		keys = append(keys, k)
	}
	sort.Strings(keys)
	for i, k := range keys {
		if i >= 6 {
			break
		}
		rep.Samples = append(rep.Samples, obs[k])
	}
	rep.WallS = time.Since(t0).Seconds()
	finish(rep)
}

// sigOf reduces a message to its leading signature token (up to the first ':').
func sigOf(m string) string {
	for i := 0; i < len(m); i++ {
		if m[i] == ':' {
			return m[:i]
		}
	}
	return m
}

func enumReplay(en *Enum) int {
	var v Violation
	if err := readJSON(*flagReplay, &v); err != nil {
		fmt.Println("bad replay file:", err)
		return 2
	}
	x := en.Eval(*flagTier, v.Case)
	fmt.Println("case:", en.Describe(*flagTier, v.Case))
	fmt.Println("observation:", x.Obs)
	if len(x.Violations) > 0 {
		for _, m := range x.Violations {
			fmt.Println("violation:", m)
		}
		fmt.Printf("VIOLATION property=%s replay=%s\n", en.Property, *flagReplay)
		return 1
	}
	fmt.Println("no violation on this case")
	return 0
}
