// Package vx is the exhaustive explorer: a stateless depth-first search over
// the choice sequences of the vs scheduler with iterative preemption bounding,
// deviation bounding, happens-before state caching and process-level sharding.
// It also hosts the plain bounded-exhaustive enumerator used for sequential
// properties.
package vx

import (
	"bufio"
	"encoding/json"
	"flag"
	"fmt"
	"hash/fnv"
	"io"
	"log"
	"os"
	"os/exec"
	"runtime"
	"runtime/debug"
	"sort"
	"strings"
	"sync"
	"time"

	"github.com/google/inverting-proxy/zz_verif/vs"
)

// Exec is what a harness concluded from one execution / one enumerated case.
type Exec struct {
	Obs        string   // canonical observation
	Violations []string // oracle failures; empty = property held on this execution
	Nontrivial bool     // enumerator only: case reached the feature under test
	Infra      string   // non-empty: the harness's own infrastructure failed for this case (never a violation)
}

// Scenario is one closed system to explore.
type Scenario struct {
	Name string
	// Setup builds a fresh instance on s and returns the judge that is called
	// with the scheduler-level result once the execution has ended.
	Setup    func(s *vs.Sched) func(r *vs.Result) Exec
	PB       int // preemption bound to reach (iterated 0..PB)
	DB       int // deviation bound
	MaxSteps int
	MaxTime  time.Duration
	// Delay makes every departure from the default scheduler (continue the running
	// thread, else the first enabled one) cost one unit of PB, also at blocking points
	// (delay-bounded instead of preemption-bounded search): for systems with many threads.
	Delay bool
	// Single runs only the default schedule (no alternatives): for scenarios whose
	// point is the input or history, with too many threads to interleave.
	Single bool
	// NoPost: no scheduling points after release operations (for scenarios whose threads poll in
	// loops of lock/unlock pairs, where those points multiply the schedules without adding behaviours
	// the scenario is about).
	NoPost bool
	// MemPB is the preemption bound of the plain-memory pass (0: the default, 2; <0: no such pass).
	MemPB int
}

// Harness is a set of scenarios per tier.
type Harness struct {
	Property  string
	Name      string
	Scenarios func(tier string) []Scenario
}

// Violation is a reported oracle failure with its replay information.
type Violation struct {
	Scenario string   `json:"scenario"`
	PB       int      `json:"pb"`
	DB       int      `json:"db"`
	Prefix   []int    `json:"prefix"`
	Messages []string `json:"messages"`
	Obs      string   `json:"obs"`
	Repro    int      `json:"reproduced"`
	Trace    []string `json:"trace,omitempty"`
	Case     int      `json:"case,omitempty"`
	Mem      []string `json:"mem_points,omitempty"`
}

// ScnStat is per-scenario coverage.
type ScnStat struct {
	Name        string   `json:"name"`
	Executions  int64    `json:"executions"`
	Transitions int64    `json:"transitions"`
	States      int64    `json:"states"`
	Pruned      int64    `json:"pruned"`
	PBCompleted int      `json:"pb_completed"`
	DB          int      `json:"db"`
	Horizon     int64    `json:"horizon_hit"`
	Diverged    int64    `json:"diverged"`
	MaxChoices  int      `json:"max_choice_points"`
	Outcomes    int      `json:"distinct_observations"`
	Exhaustive  bool     `json:"exhaustive"`
	ObsHashes   []string `json:"obs_hashes,omitempty"`
	// plain-memory second pass: racing source sites that were made scheduling points
	MemSites []string `json:"mem_sites,omitempty"`
	MemPB    int      `json:"mem_pb_completed,omitempty"`
}

// Report is what a harness binary writes for vcheck.
type Report struct {
	Property    string            `json:"property"`
	Harness     string            `json:"harness"`
	Engine      string            `json:"engine"`
	Tier        string            `json:"tier"`
	Executions  int64             `json:"executions"`
	Transitions int64             `json:"transitions"`
	States      int64             `json:"states"`
	Outcomes    int               `json:"distinct_observations"`
	Nontrivial  int64             `json:"distinct_nontrivial"`
	Samples     []string          `json:"samples"`
	Scenarios   []ScnStat         `json:"scenarios,omitempty"`
	Exhaustive  bool              `json:"exhaustive"`
	Violations  []Violation       `json:"violations"`
	Known       map[string]string `json:"known,omitempty"`
	Notes       []string          `json:"notes,omitempty"`
	WallS       float64           `json:"wall_s"`
	Rule        string            `json:"rule,omitempty"`
}

type task struct {
	Scn    int   `json:"scn"`
	PB     int   `json:"pb"`
	Prefix []int `json:"prefix"`
	Single bool  `json:"single"`
	Trace  bool  `json:"trace"`
	Epoch  int   `json:"epoch"`
	Quit   bool  `json:"quit"`
	// second pass: plain-memory access sites that are scheduling points; only
	// choices at those points are explored (each costs one unit of PB)
	Mem []string `json:"mem,omitempty"`
	// absolute wall-clock deadline of the whole run (unix nanoseconds, 0 = none)
	Deadline int64 `json:"deadline,omitempty"`
	// enumerator
	Lo, Hi int
}

type reply struct {
	Execs      int64             `json:"execs"`
	Steps      int64             `json:"steps"`
	States     int64             `json:"states"`
	Pruned     int64             `json:"pruned"`
	Horizon    int64             `json:"horizon"`
	Diverged   int64             `json:"diverged"`
	MaxChoices int               `json:"maxc"`
	Obs        map[string]string `json:"obs"`
	Viol       []Violation       `json:"viol"`
	Children   [][]int           `json:"children"`
	Nontrivial int64             `json:"nontriv"`
	TimedOut   bool              `json:"timedout"`
	Known      map[string]string `json:"known,omitempty"`
	Infra      []string          `json:"infra,omitempty"`
	MemSites   []string          `json:"memsites,omitempty"`
}

var (
	flagTier      = flag.String("tier", "quick", "quick|thorough")
	flagOut       = flag.String("out", "", "report file")
	flagWorker    = flag.Bool("worker", false, "internal: worker mode")
	flagProcs     = flag.Int("procs", 0, "worker processes (default NumCPU)")
	flagBudget    = flag.Float64("budget", 0, "wall-clock budget in seconds (0 = none); exceeding it ends with exhaustive=false")
	flagReplay    = flag.String("replay", "", "replay file")
	flagKnown     = flag.String("known", "", "known findings file")
	flagScn       = flag.String("scn", "", "only scenarios whose name contains this")
	flagMaxViol   = flag.Int("maxviol", 3, "stop after this many distinct violations")
	flagShm       = flag.String("shm", "", "internal: shared visited-set file")
	flagObsHashes = flag.Bool("obshashes", false, "list the hashes of all distinct observations per scenario in the report")
	flagShmBits   = flag.Uint("shmbits", 24, "log2 of the number of slots in the shared visited set")
)

// memPB is the preemption bound of the plain-memory pass (preemptions at
// access points only).
const memPB = 2

func cost(ch []vs.Choice, delay bool) (pre, dev int) {
	for _, c := range ch {
		if c.Pick == 0 {
			continue
		}
		switch c.Kind {
		case vs.ChSched:
			if c.Preempt || delay {
				pre++
			}
		case vs.ChDev:
			dev++
		}
	}
	return
}

func obsKey(s string) string {
	h := fnv.New64a()
	io.WriteString(h, s)
	return fmt.Sprintf("%016x", h.Sum64())
}

type pareto [][2]int16

type explorer struct {
	shm      *shmTable
	scn      *Scenario
	pb, db   int
	seen     map[uint64]pareto
	rep      *reply
	deadline time.Time
	stop     bool
	maxViol  int
	mem      map[string]bool
	memL     []string
}

func (e *explorer) runOne(prefix []int, trace bool, cache bool) (*vs.Result, Exec) {
	s := vs.New(prefix)
	if e.scn.MaxSteps > 0 {
		s.MaxSteps = e.scn.MaxSteps
	}
	if e.scn.MaxTime > 0 {
		s.MaxTime = e.scn.MaxTime
	}
	s.Trace = trace
	s.NoPost = e.scn.NoPost
	s.MemPoints = e.mem
	judge := e.scn.Setup(s)
	if cache {
		counted := false
		var pre, dev int
		s.Visited = func(n int, key uint64) bool {
			if !counted {
				// every choice beyond the prefix is alternative 0 and costs nothing
				ch := s.ChoicesSoFar()
				pre, dev = cost(ch[:min(len(prefix), len(ch))], e.scn.Delay)
				counted = true
			}
			return e.visit(key, pre, dev)
		}
	}
	r := s.Run()
	var x Exec
	if r.Pruned {
		return r, x
	}
	x = judge(r)
	return r, x
}

func (e *explorer) visit(key uint64, pre, dev int) bool {
	if e.shm != nil {
		prune, ins := e.shm.visit(key, pre, dev)
		if ins {
			e.rep.States++
		}
		return prune
	}
	p := e.seen[key]
	for _, q := range p {
		if int(q[0]) <= pre && int(q[1]) <= dev {
			return true
		}
	}
	if p == nil {
		e.rep.States++
	}
	e.seen[key] = append(p, [2]int16{int16(pre), int16(dev)})
	return false
}

// node runs the execution for prefix and returns the child prefixes within bounds.
func (e *explorer) node(prefix []int, trace bool) [][]int {
	// no state caching in the plain-memory pass: the happens-before hash orders racing
	// accesses by their announcements, which is not the order in which they take effect
	r, x := e.runOne(prefix, trace, !trace && !e.scn.Single && e.mem == nil)
	e.rep.Execs++
	e.rep.Steps += int64(r.Steps)
	if len(r.Choices) > e.rep.MaxChoices {
		e.rep.MaxChoices = len(r.Choices)
	}
	if r.Diverged != "" {
		e.rep.Diverged++
		return nil
	}
	for _, site := range vs.MemSites(r.MemRaces) {
		have := false
		for _, x := range e.rep.MemSites {
			if x == site {
				have = true
			}
		}
		if !have {
			e.rep.MemSites = append(e.rep.MemSites, site)
		}
	}
	if r.Pruned {
		e.rep.Pruned++
		if os.Getenv("VX_DEBUG") != "" {
			fmt.Fprintf(os.Stderr, "PRUNED %v at choice %d step %d\n", prefix, len(r.Choices), r.Steps)
		}
	} else {
		if r.Horizon {
			e.rep.Horizon++
		}
		k := obsKey(x.Obs)
		if _, ok := e.rep.Obs[k]; !ok && len(e.rep.Obs) < 4096 {
			e.rep.Obs[k] = clip(x.Obs, 600)
		}
		if len(x.Violations) > 0 && len(workerKnown) > 0 {
			if e.rep.Known == nil {
				e.rep.Known = map[string]string{}
			}
			x.Violations = splitKnown(x.Violations, workerKnown, e.rep.Known)
		}
		if len(x.Violations) > 0 {
			v := Violation{Scenario: e.scn.Name, PB: e.pb, DB: e.db, Prefix: picks(r.Choices), Messages: x.Violations, Obs: clip(x.Obs, 2000), Mem: e.memL}
			if trace {
				v.Trace = r.TraceLog
			}
			e.rep.Viol = append(e.rep.Viol, v)
			if len(e.rep.Viol) >= e.maxViol {
				e.stop = true
			}
		}
	}
	if e.scn.Single && e.mem == nil {
		// one execution is the whole scenario: nobody takes the alternatives (with hundreds of threads
		// and thousands of choice points their prefixes alone are gigabytes)
		return nil
	}
	var kids [][]int
	pre, dev := cost(r.Choices[:min(len(prefix), len(r.Choices))], e.scn.Delay)
	for i := len(prefix); i < len(r.Choices); i++ {
		c := r.Choices[i]
		if e.mem != nil && !(c.Kind == vs.ChSched && c.Mem) {
			continue
		}
		for alt := 1; alt < c.N; alt++ {
			p, d := pre, dev
			if c.Kind == vs.ChSched && (c.Preempt || e.scn.Delay) {
				p++
			}
			if c.Kind == vs.ChDev {
				d++
			}
			if p > e.pb || d > e.db {
				continue
			}
			kid := make([]int, i+1)
			for j := 0; j < i; j++ {
				kid[j] = r.Choices[j].Pick
			}
			kid[i] = alt
			kids = append(kids, kid)
		}
	}
	return kids
}

func picks(ch []vs.Choice) []int {
	p := make([]int, len(ch))
	for i, c := range ch {
		p[i] = c.Pick
	}
	// trailing zeros are implied
	n := len(p)
	for n > 0 && p[n-1] == 0 {
		n--
	}
	return p[:n]
}

func clip(s string, n int) string {
	if len(s) > n {
		return s[:n] + "…"
	}
	return s
}

func (e *explorer) dfs(prefix []int) {
	if e.stop {
		return
	}
	if !e.deadline.IsZero() && time.Now().After(e.deadline) {
		e.stop = true
		e.rep.TimedOut = true
		return
	}
	for _, k := range e.node(prefix, false) {
		e.dfs(k)
		if e.stop {
			return
		}
	}
}

// ---- worker ----

var workerKnown []Known

func workerLoop(h *Harness, en *Enum) {
	log.SetOutput(io.Discard)
	if h != nil {
		workerKnown = loadKnown(*flagKnown, h.Property)
	}
	debug.SetGCPercent(400)
	in := bufio.NewReaderSize(os.Stdin, 1<<20)
	out := bufio.NewWriter(os.Stdout)
	dec := json.NewDecoder(in)
	var scns []Scenario
	if h != nil {
		scns = h.Scenarios(*flagTier)
	}
	var ex *explorer
	epoch := -1
	var shm *shmTable
	if *flagShm != "" {
		var err error
		if shm, err = shmOpen(*flagShm); err != nil {
			fmt.Fprintln(os.Stderr, "shm:", err)
			shm = nil
		}
	}
	for {
		var t task
		if err := dec.Decode(&t); err != nil {
			return
		}
		if t.Quit {
			return
		}
		rep := &reply{Obs: map[string]string{}}
		if en != nil {
			en.evalRange(t.Lo, t.Hi, rep)
		} else {
			if ex == nil || epoch != t.Epoch {
				ex = &explorer{seen: map[uint64]pareto{}, shm: shm}
				epoch = t.Epoch
			}
			ex.scn = &scns[t.Scn]
			ex.pb, ex.db = t.PB, scns[t.Scn].DB
			ex.rep = rep
			ex.mem, ex.memL = nil, t.Mem
			if len(t.Mem) > 0 {
				ex.mem = map[string]bool{}
				for _, m := range t.Mem {
					ex.mem[m] = true
				}
			}
			ex.stop = false
			ex.maxViol = *flagMaxViol
			ex.deadline = time.Time{}
			if t.Deadline > 0 {
				ex.deadline = time.Unix(0, t.Deadline)
			}
			fmt.Fprintf(os.Stderr, "J %d %d %v\n", t.Scn, t.PB, t.Prefix)
			if t.Single {
				rep.Children = ex.node(t.Prefix, t.Trace)
			} else {
				ex.dfs(t.Prefix)
			}
		}
		b, _ := json.Marshal(rep)
		out.Write(b)
		out.WriteByte('\n')
		out.Flush()
	}
}

type worker struct {
	cmd  *exec.Cmd
	in   io.WriteCloser
	out  *json.Decoder
	errb *tailBuf
}

type tailBuf struct {
	mu   sync.Mutex
	last string
	all  []byte
}

func (t *tailBuf) Write(p []byte) (int, error) {
	t.mu.Lock()
	defer t.mu.Unlock()
	t.all = append(t.all, p...)
	if len(t.all) > 1<<16 {
		t.all = t.all[len(t.all)-1<<15:]
	}
	return len(p), nil
}

func (t *tailBuf) String() string {
	t.mu.Lock()
	defer t.mu.Unlock()
	return string(t.all)
}

func startWorker(budget float64) (*worker, error) {
	args := []string{"-worker", "-tier", *flagTier, "-maxviol", fmt.Sprint(*flagMaxViol)}
	// harness-specific flags are handed on unchanged
	own := map[string]bool{"worker": true, "tier": true, "maxviol": true, "out": true, "procs": true, "budget": true, "replay": true, "known": true, "scn": true, "shm": true, "shmbits": true, "obshashes": true}
	flag.Visit(func(f *flag.Flag) {
		if !own[f.Name] {
			args = append(args, "-"+f.Name+"="+f.Value.String())
		}
	})
	if masterShm != nil {
		args = append(args, "-shm", masterShm.file)
	}
	if *flagKnown != "" {
		args = append(args, "-known", *flagKnown)
	}
	if budget > 0 {
		args = append(args, "-budget", fmt.Sprint(budget))
	}
	cmd := exec.Command(os.Args[0], args...)
	cmd.Env = append(os.Environ(), "GOMAXPROCS=2")
	in, err := cmd.StdinPipe()
	if err != nil {
		return nil, err
	}
	outp, err := cmd.StdoutPipe()
	if err != nil {
		return nil, err
	}
	tb := &tailBuf{}
	cmd.Stderr = tb
	if err := cmd.Start(); err != nil {
		return nil, err
	}
	return &worker{cmd: cmd, in: in, out: json.NewDecoder(bufio.NewReaderSize(outp, 1<<20)), errb: tb}, nil
}

var runDeadline time.Time

func (w *worker) do(t task) (*reply, error) {
	if !runDeadline.IsZero() && t.Deadline == 0 {
		t.Deadline = runDeadline.UnixNano()
	}
	b, _ := json.Marshal(t)
	if _, err := w.in.Write(append(b, '\n')); err != nil {
		return nil, err
	}
	var r reply
	if err := w.out.Decode(&r); err != nil {
		return nil, fmt.Errorf("worker died: %v; stderr tail: %s", err, clipTail(w.errb.String(), 3000))
	}
	return &r, nil
}

func clipTail(s string, n int) string {
	if len(s) > n {
		return s[len(s)-n:]
	}
	return s
}

func (w *worker) stop() {
	w.in.Close()
	done := make(chan struct{})
	go func() { w.cmd.Wait(); close(done) }()
	select {
	case <-done:
	case <-time.After(2 * time.Second):
		w.cmd.Process.Kill()
		<-done
	}
}

// Known is one entry of known_findings.json.
type Known struct {
	Property    string `json:"property"`
	ID          string `json:"id"`
	Match       string `json:"match"`
	Description string `json:"description"`
}

func loadKnown(path, property string) []Known {
	if path == "" {
		return nil
	}
	b, err := os.ReadFile(path)
	if err != nil {
		return nil
	}
	var f struct {
		Findings []Known `json:"findings"`
	}
	if json.Unmarshal(b, &f) != nil {
		return nil
	}
	var r []Known
	for _, k := range f.Findings {
		if k.Property == property && k.Match != "" {
			r = append(r, k)
		}
	}
	return r
}

// splitKnown separates messages matching a known finding from new ones.
func splitKnown(msgs []string, known []Known, hit map[string]string) (rest []string) {
	for _, m := range msgs {
		matched := false
		for _, k := range known {
			if strings.Contains(m, k.Match) {
				matched = true
				if _, ok := hit[k.ID]; !ok {
					hit[k.ID] = clip(m, 300)
				}
				break
			}
		}
		if !matched {
			rest = append(rest, m)
		}
	}
	return
}

var masterShm *shmTable

// Main is the entry point of a scheduler-based harness binary.
func Main(h *Harness) {
	flag.Parse()
	if *flagWorker {
		workerLoop(h, nil)
		return
	}
	log.SetOutput(io.Discard)
	if *flagReplay != "" {
		os.Exit(replay(h))
	}
	t0 := time.Now()
	rep := &Report{Property: h.Property, Harness: h.Name, Engine: "vs", Tier: *flagTier, Exhaustive: true, Known: map[string]string{}}
	known := loadKnown(*flagKnown, h.Property)
	scns := h.Scenarios(*flagTier)
	procs := *flagProcs
	if procs <= 0 {
		procs = runtime.NumCPU()
	}
	obsAll := map[string]string{}
	epoch := 0
	var deadline time.Time
	if *flagBudget > 0 {
		deadline = t0.Add(time.Duration(*flagBudget * float64(time.Second)))
		runDeadline = deadline
	}
	workers := make([]*worker, 0, procs)
	if t, err := shmCreate(*flagShmBits); err == nil {
		masterShm = t
	} else {
		rep.Notes = append(rep.Notes, "shared visited set unavailable: "+err.Error())
	}
	cleanup = func() {
		for _, w := range workers {
			w.stop()
		}
		if masterShm != nil {
			masterShm.close(true)
			masterShm = nil
		}
	}
	defer cleanup()
	getWorker := func(i int) (*worker, error) {
		for len(workers) <= i {
			rem := 0.0
			if !deadline.IsZero() {
				rem = time.Until(deadline).Seconds()
				if rem < 1 {
					rem = 1
				}
			}
			w, err := startWorker(rem)
			if err != nil {
				return nil, err
			}
			workers = append(workers, w)
		}
		return workers[i], nil
	}
	violDistinct := map[string]bool{}
	// Single-schedule scenarios are independent one-execution jobs: run them in
	// parallel over the worker pool first.
	singleDone := map[int]bool{}
	singleMem := map[int][]string{}
	{
		var idx []int
		for si := range scns {
			if scns[si].Single && (*flagScn == "" || strings.Contains(scns[si].Name, *flagScn)) {
				idx = append(idx, si)
			}
		}
		if len(idx) > 1 {
			var mu sync.Mutex
			next := 0
			var wg sync.WaitGroup
			nw := procs
			if nw > len(idx) {
				nw = len(idx)
			}
			for wi := 0; wi < nw; wi++ {
				w, err := getWorker(wi)
				if err != nil {
					fatal(rep, err)
				}
				wg.Add(1)
				go func(w *worker) {
					defer wg.Done()
					for {
						mu.Lock()
						if next >= len(idx) || (!deadline.IsZero() && time.Now().After(deadline)) {
							mu.Unlock()
							return
						}
						si := idx[next]
						next++
						mu.Unlock()
						sc := &scns[si]
						r, err := w.do(task{Scn: si, PB: 0, Prefix: nil, Single: true, Epoch: 1000000 + si})
						mu.Lock()
						st := ScnStat{Name: sc.Name, DB: sc.DB, PBCompleted: 0, Exhaustive: true}
						if err != nil {
							st.Exhaustive = false
							rep.Exhaustive = false
							rep.Violations = append(rep.Violations, Violation{Scenario: sc.Name, Messages: []string{"CRASH worker process died: " + err.Error()}})
							rep.Scenarios = append(rep.Scenarios, st)
							singleDone[si] = true
							mu.Unlock()
							return
						}
						st.Executions, st.Transitions, st.Horizon, st.MaxChoices, st.Outcomes = r.Execs, r.Steps, r.Horizon, r.MaxChoices, len(r.Obs)
						st.States = r.Steps
						for k, v := range r.Obs {
							obsAll[sc.Name+"/"+k] = v
						}
						for k, v := range r.Known {
							if _, ok := rep.Known[k]; !ok {
								rep.Known[k] = v
							}
						}
						for _, v := range r.Viol {
							rest := splitKnown(v.Messages, known, rep.Known)
							if len(rest) == 0 {
								continue
							}
							v.Messages = rest
							v.Repro = -1 // confirmed below
							rep.Violations = append(rep.Violations, v)
							st.Exhaustive = false
						}
						rep.Scenarios = append(rep.Scenarios, st)
						rep.Executions += st.Executions
						rep.Transitions += st.Transitions
						rep.States += st.States
						singleDone[si] = true
						if st.Exhaustive && len(r.MemSites) > 0 {
							singleMem[si] = r.MemSites
						}
						mu.Unlock()
					}
				}(w)
			}
			wg.Wait()
			// confirm determinism of what was found
			var kept []Violation
			seenSig := map[string]bool{}
			for _, v := range rep.Violations {
				if v.Repro != -1 {
					kept = append(kept, v)
					continue
				}
				sig := v.Scenario + "|" + v.Messages[0]
				if seenSig[sig] || len(kept) >= *flagMaxViol {
					continue
				}
				seenSig[sig] = true
				si := 0
				for i := range scns {
					if scns[i].Name == v.Scenario {
						si = i
					}
				}
				v.Repro = confirm(getWorker, si, 0, 2000000+si*8, &v)
				violDistinct[sig] = true
				kept = append(kept, v)
			}
			rep.Violations = kept
			for _, v := range rep.Violations {
				if v.Repro >= 5 || strings.HasPrefix(v.Messages[0], "CRASH") {
					rep.Exhaustive = false
				}
			}
		}
	}
scnLoop:
	for si := range scns {
		sc := &scns[si]
		if *flagScn != "" && !strings.Contains(sc.Name, *flagScn) {
			continue
		}
		if singleDone[si] && len(singleMem[si]) == 0 {
			continue
		}
		if len(rep.Violations) >= *flagMaxViol {
			break scnLoop
		}
		st := ScnStat{Name: sc.Name, DB: sc.DB, PBCompleted: -1, Exhaustive: true}
		scObs := map[string]bool{}
		// passes: the ordinary preemption bounds first; then, if unordered conflicting
		// plain-memory accesses were seen, the same scenario again with a scheduling
		// point in front of every access at the racing sites
		type pass struct {
			pb  int
			mem []string
		}
		var passes []pass
		scMem := map[string]bool{}
		memRounds := 0
		if singleDone[si] {
			st.Name += " [mem]"
			st.PBCompleted = 0
			for _, m := range singleMem[si] {
				scMem[m] = true
			}
		} else {
			for pb := 0; pb <= sc.PB; pb++ {
				passes = append(passes, pass{pb: pb})
			}
		}
		memSorted := func() []string {
			var l []string
			for m := range scMem {
				l = append(l, m)
			}
			sort.Strings(l)
			return l
		}
		lastMemSet := ""
		for pi := 0; ; pi++ {
			if pi == len(passes) {
				// schedule a plain-memory pass if there are (new) racing sites
				l := memSorted()
				key := strings.Join(l, ",")
				if len(l) == 0 || key == lastMemSet || memRounds >= 3 || !st.Exhaustive || sc.MemPB < 0 {
					break
				}
				mpb := memPB
				if sc.MemPB > 0 {
					mpb = sc.MemPB
				}
				lastMemSet = key
				memRounds++
				st.MemSites = l
				for pb := 0; pb <= mpb; pb++ {
					passes = append(passes, pass{pb: pb, mem: l})
				}
			}
			pb, mem := passes[pi].pb, passes[pi].mem
			epoch++
			if masterShm != nil {
				masterShm.clear()
			}
			if !deadline.IsZero() && time.Now().After(deadline) {
				st.Exhaustive = false
				break
			}
			// Phase 1: expand breadth-first in the master's first worker until the frontier is wide enough.
			frontier := [][]int{{}}
			var agg reply
			agg.Obs = map[string]string{}
			merge := func(r *reply) {
				agg.Execs += r.Execs
				agg.Steps += r.Steps
				agg.States += r.States
				agg.Pruned += r.Pruned
				agg.Horizon += r.Horizon
				agg.Diverged += r.Diverged
				if r.MaxChoices > agg.MaxChoices {
					agg.MaxChoices = r.MaxChoices
				}
				for k, v := range r.Obs {
					agg.Obs[k] = v
				}
				agg.Viol = append(agg.Viol, r.Viol...)
				for k, v := range r.Known {
					if _, ok := rep.Known[k]; !ok {
						rep.Known[k] = v
					}
				}
				if r.TimedOut {
					agg.TimedOut = true
				}
				for _, m := range r.MemSites {
					scMem[m] = true
				}
			}
			w0, err := getWorker(0)
			if err != nil {
				fatal(rep, err)
			}
			want := procs * 24
			crashed := false
			for len(frontier) > 0 && len(frontier) < want && agg.Execs < 400 {
				if !deadline.IsZero() && time.Now().After(deadline) {
					agg.TimedOut = true
					break
				}
				p := frontier[0]
				frontier = frontier[1:]
				r, err := w0.do(task{Scn: si, PB: pb, Prefix: p, Single: true, Epoch: epoch, Mem: mem})
				if err != nil {
					crashed = true
					agg.Viol = append(agg.Viol, Violation{Scenario: sc.Name, PB: pb, DB: sc.DB, Prefix: p, Messages: []string{"CRASH worker process died: " + err.Error()}})
					workers[0].stop()
					workers = workers[1:]
					break
				}
				merge(r)
				if sc.Single && mem == nil {
					break
				}
				frontier = append(frontier, r.Children...)
				if len(agg.Viol) > 0 {
					break
				}
			}
			// Phase 2: hand subtrees to the worker pool.
			if !crashed && len(agg.Viol) == 0 && len(frontier) > 0 && (!sc.Single || mem != nil) && !agg.TimedOut {
				var mu sync.Mutex
				next := 0
				var wg sync.WaitGroup
				stopAll := false
				nw := procs
				if nw > len(frontier) {
					nw = len(frontier)
				}
				for wi := 0; wi < nw; wi++ {
					w, err := getWorker(wi)
					if err != nil {
						fatal(rep, err)
					}
					wg.Add(1)
					go func(w *worker) {
						defer wg.Done()
						for {
							mu.Lock()
							if stopAll || next >= len(frontier) {
								mu.Unlock()
								return
							}
							p := frontier[next]
							next++
							mu.Unlock()
							r, err := w.do(task{Scn: si, PB: pb, Prefix: p, Epoch: epoch, Mem: mem})
							mu.Lock()
							if err != nil {
								agg.Viol = append(agg.Viol, Violation{Scenario: sc.Name, PB: pb, DB: sc.DB, Prefix: p, Messages: []string{"CRASH worker process died: " + err.Error()}})
								stopAll = true
								crashed = true
								mu.Unlock()
								return
							}
							merge(r)
							if len(agg.Viol) > 0 || r.TimedOut {
								stopAll = true
							}
							mu.Unlock()
						}
					}(w)
				}
				wg.Wait()
				if crashed {
					// drop all workers; dead ones cannot be reused
					for _, w := range workers {
						w.stop()
					}
					workers = workers[:0]
				}
			}
			if os.Getenv("VX_DEBUG") != "" {
				fmt.Fprintf(os.Stderr, "[vx] %s mem=%d pb=%d execs=%d steps=%d states=%d pruned=%d obs=%d viol=%d frontier=%d t=%.1fs\n", sc.Name, len(mem), pb, agg.Execs, agg.Steps, agg.States, agg.Pruned, len(agg.Obs), len(agg.Viol), len(frontier), time.Since(t0).Seconds())
			}
			st.Executions += agg.Execs
			st.Transitions += agg.Steps
			st.States += agg.States
			st.Pruned += agg.Pruned
			st.Horizon += agg.Horizon
			st.Diverged += agg.Diverged
			if agg.MaxChoices > st.MaxChoices {
				st.MaxChoices = agg.MaxChoices
			}
			for k, v := range agg.Obs {
				scObs[k] = true
				obsAll[sc.Name+"/"+k] = v
			}
			newViol := false
			for _, v := range agg.Viol {
				rest := splitKnown(v.Messages, known, rep.Known)
				if len(rest) == 0 {
					continue
				}
				v.Messages = rest
				sig := sc.Name + "|" + rest[0]
				if violDistinct[sig] {
					continue
				}
				violDistinct[sig] = true
				// confirm determinism
				if !strings.HasPrefix(rest[0], "CRASH") {
					v.Repro = confirm(getWorker, si, pb, epoch+1000, &v)
				}
				rep.Violations = append(rep.Violations, v)
				newViol = true
			}
			if agg.TimedOut || agg.Diverged > 0 {
				st.Exhaustive = false
			}
			if newViol {
				st.Exhaustive = false
				break
			}
			if agg.TimedOut {
				break
			}
			if mem == nil {
				st.PBCompleted = pb
				if sc.Single {
					passes = passes[:pi+1]
				}
			} else {
				st.MemPB = pb
			}
		}
		st.Outcomes = len(scObs)
		if *flagObsHashes {
			for k := range scObs {
				st.ObsHashes = append(st.ObsHashes, k)
			}
			sort.Strings(st.ObsHashes)
		}
		rep.Scenarios = append(rep.Scenarios, st)
		rep.Executions += st.Executions
		rep.Transitions += st.Transitions
		rep.States += st.States
		if !st.Exhaustive {
			rep.Exhaustive = false
		}
		if len(rep.Violations) >= *flagMaxViol {
			break scnLoop
		}
	}
	rep.Outcomes = len(obsAll)
	keys := make([]string, 0, len(obsAll))
	for k := range obsAll {
		keys = append(keys, k)
	}
	sort.Strings(keys)
	for i, k := range keys {
		if i >= 6 && !*flagObsHashes {
			break
		}
		rep.Samples = append(rep.Samples, k[:strings.LastIndex(k, "/")]+": "+obsAll[k])
	}
	rep.WallS = time.Since(t0).Seconds()
	finish(rep)
}

func confirm(getWorker func(int) (*worker, error), si, pb, epoch int, v *Violation) int {
	n := 0
	w, err := getWorker(0)
	if err != nil {
		return 0
	}
	for i := 0; i < 5; i++ {
		r, err := w.do(task{Scn: si, PB: pb, Prefix: v.Prefix, Single: true, Trace: true, Epoch: epoch + i, Mem: v.Mem})
		if err != nil {
			return n
		}
		if len(r.Viol) > 0 && sameMsgs(r.Viol[0].Messages, v.Messages) {
			n++
			v.Trace = r.Viol[0].Trace
		}
	}
	return n
}

func sameMsgs(a, b []string) bool {
	// b may have had known findings filtered out: require b ⊆ a
	for _, m := range b {
		found := false
		for _, x := range a {
			if x == m {
				found = true
			}
		}
		if !found {
			return false
		}
	}
	return true
}

func fatal(rep *Report, err error) {
	rep.Notes = append(rep.Notes, "INTERNAL: "+err.Error())
	rep.Exhaustive = false
	finish(rep)
}

var cleanup = func() {}

func finish(rep *Report) {
	cleanup()
	b, _ := json.MarshalIndent(rep, "", " ")
	if *flagOut != "" {
		os.WriteFile(*flagOut, b, 0644)
	} else {
		os.Stdout.Write(b)
		fmt.Println()
	}
	for id, m := range rep.Known {
		fmt.Printf("KNOWN-FINDING: property=%s %s: %s\n", rep.Property, id, strings.ReplaceAll(m, "\n", " | "))
	}
	real := 0
	for _, v := range rep.Violations {
		if strings.HasPrefix(v.Messages[0], "CRASH") || v.Repro >= 5 || rep.Engine == "enum" {
			real++
		}
	}
	if real > 0 {
		os.Exit(1)
	}
	os.Exit(0)
}

func replay(h *Harness) int {
	b, err := os.ReadFile(*flagReplay)
	if err != nil {
		fmt.Println("cannot read replay file:", err)
		return 2
	}
	var v Violation
	if err := json.Unmarshal(b, &v); err != nil {
		fmt.Println("bad replay file:", err)
		return 2
	}
	scns := h.Scenarios(*flagTier)
	for _, t := range []string{"quick", "thorough"} {
		found := false
		for _, sc := range scns {
			if sc.Name == v.Scenario {
				found = true
			}
		}
		if found {
			break
		}
		scns = h.Scenarios(t)
	}
	for i := range scns {
		if scns[i].Name != v.Scenario {
			continue
		}
		e := &explorer{scn: &scns[i], pb: v.PB, db: v.DB, seen: map[uint64]pareto{}, rep: &reply{Obs: map[string]string{}}, maxViol: 1}
		if len(v.Mem) > 0 {
			e.mem = map[string]bool{}
			for _, m := range v.Mem {
				e.mem[m] = true
			}
		}
		r, x := e.runOne(v.Prefix, true, false)
		for _, l := range r.TraceLog {
			fmt.Println(l)
		}
		fmt.Println("observation:", x.Obs)
		if r.Diverged != "" {
			fmt.Println("DIVERGED:", r.Diverged)
		}
		if len(x.Violations) > 0 {
			for _, m := range x.Violations {
				fmt.Println("violation:", m)
			}
			fmt.Printf("VIOLATION property=%s replay=%s\n", h.Property, *flagReplay)
			return 1
		}
		fmt.Println("no violation on this schedule")
		return 0
	}
	fmt.Println("scenario not found:", v.Scenario)
	return 2
}

func min(a, b int) int {
	if a < b {
		return a
	}
	return b
}

func readJSON(path string, v interface{}) error {
	b, err := os.ReadFile(path)
	if err != nil {
		return err
	}
	return json.Unmarshal(b, v)
}
