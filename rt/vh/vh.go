// Package vh holds helpers shared by the harnesses.
package vh

import (
	"bufio"
	"bytes"
	"flag"
	"fmt"
	"io"
	"net/http"
	"os"
	"sort"
	"strings"
	"unsafe"

	"github.com/google/inverting-proxy/zz_verif/vs"
)

// Rec is a ResponseWriter that records what a client of net/http's server
// would observe: status, the header as of WriteHeader, body, and trailers
// (fields announced in "Trailer" or added with http.TrailerPrefix afterwards).
type Rec struct {
	Code     int
	Hdr      http.Header
	Snapshot http.Header
	Body     bytes.Buffer
	Wrote    bool
	Flushes  int
	OnWrite  func(p []byte)
}

func NewRec() *Rec { return &Rec{Hdr: http.Header{}} }

func (r *Rec) Header() http.Header { return r.Hdr }
func (r *Rec) WriteHeader(c int) {
	if r.Wrote {
		return
	}
	if c >= 100 && c < 200 {
		return
	}
	r.Wrote = true
	r.Code = c
	r.Snapshot = r.Hdr.Clone()
}
func (r *Rec) Write(p []byte) (int, error) {
	if !r.Wrote {
		r.WriteHeader(200)
	}
	r.Body.Write(p)
	if r.OnWrite != nil {
		r.OnWrite(p)
	}
	return len(p), nil
}
func (r *Rec) Flush() { r.Flushes++ }

// Trailers returns the trailer fields as net/http's server would send them.
func (r *Rec) Trailers() http.Header {
	t := http.Header{}
	if r.Snapshot == nil {
		return t
	}
	for _, names := range r.Snapshot["Trailer"] {
		for _, n := range strings.Split(names, ",") {
			n = http.CanonicalHeaderKey(strings.TrimSpace(n))
			if vs, ok := r.Hdr[n]; ok {
				t[n] = append([]string{}, vs...)
			}
		}
	}
	for k, vs := range r.Hdr {
		if strings.HasPrefix(k, http.TrailerPrefix) {
			n := strings.TrimPrefix(k, http.TrailerPrefix)
			t[n] = append(t[n], vs...)
		}
	}
	return t
}

// HeaderString renders a header canonically (sorted keys, values in order).
func HeaderString(h http.Header, skip ...string) string {
	var keys []string
outer:
	for k := range h {
		for _, s := range skip {
			if strings.EqualFold(k, s) || (strings.HasSuffix(s, "*") && strings.HasPrefix(k, strings.TrimSuffix(s, "*"))) {
				continue outer
			}
		}
		keys = append(keys, k)
	}
	sort.Strings(keys)
	var sb strings.Builder
	for _, k := range keys {
		fmt.Fprintf(&sb, "%s=%q;", k, h[k])
	}
	return sb.String()
}

// SetArgs resets the flag package's command line to the given arguments and
// every flag to its default, so that a program's main() can be run afresh.
func SetArgs(prog string, args ...string) {
	os.Args = append([]string{prog}, args...)
	flag.CommandLine.VisitAll(func(f *flag.Flag) { f.Value.Set(f.DefValue) })
}

// Forever parks the calling thread for good.
func Forever(what string) {
	vs.Wait(what, nil, func() bool { return false })
}

// Until parks the calling thread until cond holds.
func Until(what string, obj unsafe.Pointer, cond func() bool) {
	vs.Wait(what, obj, cond)
}

// ParseRequest parses a wire-format request.
func ParseRequest(b []byte) (*http.Request, []byte, error) {
	req, err := http.ReadRequest(bufio.NewReader(bytes.NewReader(b)))
	if err != nil {
		return nil, nil, err
	}
	body, err := io.ReadAll(req.Body)
	return req, body, err
}

// Short abbreviates long strings for observations.
func Short(s string) string {
	if len(s) <= 24 {
		return s
	}
	return fmt.Sprintf("%s…(%d)…%s", s[:8], len(s), s[len(s)-8:])
}

// BufReader wraps bytes in a bufio.Reader.
func BufReader(b []byte) *bufio.Reader { return bufio.NewReader(bytes.NewReader(b)) }
