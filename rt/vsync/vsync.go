// Package vsync mirrors the parts of package sync the repository uses, on top
// of the vs scheduler. In pass-through mode it delegates to package sync.
package vsync

import (
	"sync"
	"unsafe"

	"github.com/google/inverting-proxy/zz_verif/vs"
)

// Locker mirrors sync.Locker.
type Locker = sync.Locker

// Mutex mirrors sync.Mutex.
type Mutex struct {
	held bool
	n    sync.Mutex
}

func (m *Mutex) Lock() {
	if !vs.Active() {
		m.n.Lock()
		return
	}
	vs.Wait("Lock", unsafe.Pointer(m), func() bool { return !m.held })
	m.held = true
}

func (m *Mutex) TryLock() bool {
	if !vs.Active() {
		return m.n.TryLock()
	}
	vs.Point("TryLock", unsafe.Pointer(m))
	if m.held {
		return false
	}
	m.held = true
	return true
}

func (m *Mutex) Unlock() {
	if !vs.Active() {
		m.n.Unlock()
		return
	}
	if !m.held {
		panic("sync: unlock of unlocked mutex")
	}
	m.held = false
	vs.Event("Unlock", unsafe.Pointer(m), false, true)
	vs.After("Unlock(done)", unsafe.Pointer(m))
}

// RWMutex mirrors sync.RWMutex.
type RWMutex struct {
	w bool
	r int
	n sync.RWMutex
	// readers release into an object of their own: a read lock synchronises with writers, not with
	// other readers (two read-side critical sections are not ordered by happens-before)
	rd byte
}

func (m *RWMutex) Lock() {
	if !vs.Active() {
		m.n.Lock()
		return
	}
	vs.Wait("Lock", unsafe.Pointer(m), func() bool { return !m.w && m.r == 0 })
	m.w = true
	vs.Event("Lock(readers)", unsafe.Pointer(&m.rd), true, false)
}
func (m *RWMutex) Unlock() {
	if !vs.Active() {
		m.n.Unlock()
		return
	}
	m.w = false
	vs.Event("Unlock", unsafe.Pointer(m), false, true)
	vs.After("Unlock(done)", unsafe.Pointer(m))
}
func (m *RWMutex) RLock() {
	if !vs.Active() {
		m.n.RLock()
		return
	}
	vs.Wait("RLock", unsafe.Pointer(m), func() bool { return !m.w })
	m.r++
}
func (m *RWMutex) RUnlock() {
	if !vs.Active() {
		m.n.RUnlock()
		return
	}
	m.r--
	vs.Event("RUnlock", unsafe.Pointer(&m.rd), false, true)
}
func (m *RWMutex) RLocker() Locker { return (*rlocker)(m) }

type rlocker RWMutex

func (r *rlocker) Lock()   { (*RWMutex)(r).RLock() }
func (r *rlocker) Unlock() { (*RWMutex)(r).RUnlock() }

// WaitGroup mirrors sync.WaitGroup.
type WaitGroup struct {
	c int
	n sync.WaitGroup
}

func (w *WaitGroup) Add(d int) {
	if !vs.Active() {
		w.n.Add(d)
		return
	}
	w.c += d
	if w.c < 0 {
		panic("sync: negative WaitGroup counter")
	}
	vs.Event("wg.Add", unsafe.Pointer(w), false, true)
	if d < 0 {
		vs.After("wg.Done(done)", unsafe.Pointer(w))
	}
}
func (w *WaitGroup) Done() { w.Add(-1) }
func (w *WaitGroup) Wait() {
	if !vs.Active() {
		w.n.Wait()
		return
	}
	vs.Wait("wg.Wait", unsafe.Pointer(w), func() bool { return w.c == 0 })
}

// Once mirrors sync.Once.
type Once struct {
	state int // 0 fresh, 1 running, 2 done
	n     sync.Once
}

func (o *Once) Do(f func()) {
	if !vs.Active() {
		o.n.Do(f)
		return
	}
	vs.Wait("Once.Do", unsafe.Pointer(o), func() bool { return o.state != 1 })
	if o.state == 2 {
		return
	}
	o.state = 1
	defer func() {
		o.state = 2
		vs.Event("Once.done", unsafe.Pointer(o), false, true)
	}()
	f()
}

// Map mirrors sync.Map. Every operation is a scheduling point.
type Map struct {
	m map[interface{}]interface{}
	k []interface{} // insertion order, for deterministic Range
	n sync.Map
}

func (m *Map) point(op string) { vs.Point("Map."+op, unsafe.Pointer(m)) }

func (m *Map) Load(key interface{}) (interface{}, bool) {
	if !vs.Active() {
		return m.n.Load(key)
	}
	m.point("Load")
	v, ok := m.m[key]
	return v, ok
}
func (m *Map) Store(key, value interface{}) {
	if !vs.Active() {
		m.n.Store(key, value)
		return
	}
	m.point("Store")
	m.store(key, value)
}
func (m *Map) store(key, value interface{}) {
	if m.m == nil {
		m.m = map[interface{}]interface{}{}
	}
	if _, ok := m.m[key]; !ok {
		m.k = append(m.k, key)
	}
	m.m[key] = value
}
func (m *Map) LoadOrStore(key, value interface{}) (interface{}, bool) {
	if !vs.Active() {
		return m.n.LoadOrStore(key, value)
	}
	m.point("LoadOrStore")
	if v, ok := m.m[key]; ok {
		return v, true
	}
	m.store(key, value)
	return value, false
}
func (m *Map) LoadAndDelete(key interface{}) (interface{}, bool) {
	if !vs.Active() {
		return m.n.LoadAndDelete(key)
	}
	m.point("LoadAndDelete")
	v, ok := m.m[key]
	m.del(key)
	return v, ok
}
func (m *Map) del(key interface{}) {
	if _, ok := m.m[key]; ok {
		delete(m.m, key)
		for i, k := range m.k {
			if k == key {
				m.k = append(m.k[:i:i], m.k[i+1:]...)
				break
			}
		}
	}
}
func (m *Map) Delete(key interface{}) {
	if !vs.Active() {
		m.n.Delete(key)
		return
	}
	m.point("Delete")
	m.del(key)
}
func (m *Map) Swap(key, value interface{}) (interface{}, bool) {
	if !vs.Active() {
		return m.n.Swap(key, value)
	}
	m.point("Swap")
	v, ok := m.m[key]
	m.store(key, value)
	return v, ok
}
func (m *Map) CompareAndSwap(key, old, new interface{}) bool {
	if !vs.Active() {
		return m.n.CompareAndSwap(key, old, new)
	}
	m.point("CompareAndSwap")
	if v, ok := m.m[key]; ok && v == old {
		m.m[key] = new
		return true
	}
	return false
}
func (m *Map) CompareAndDelete(key, old interface{}) bool {
	if !vs.Active() {
		return m.n.CompareAndDelete(key, old)
	}
	m.point("CompareAndDelete")
	if v, ok := m.m[key]; ok && v == old {
		m.del(key)
		return true
	}
	return false
}
func (m *Map) Range(f func(key, value interface{}) bool) {
	if !vs.Active() {
		m.n.Range(f)
		return
	}
	m.point("Range")
	keys := append([]interface{}{}, m.k...)
	for _, k := range keys {
		v, ok := m.m[k]
		if !ok {
			continue
		}
		if !f(k, v) {
			return
		}
	}
}

// Cond mirrors sync.Cond.
type Cond struct {
	L   Locker
	gen int
	n   *sync.Cond
}

func NewCond(l Locker) *Cond { return &Cond{L: l, n: sync.NewCond(l)} }
func (c *Cond) Wait() {
	if !vs.Active() {
		c.n.Wait()
		return
	}
	g := c.gen
	c.L.Unlock()
	vs.Wait("Cond.Wait", unsafe.Pointer(c), func() bool { return c.gen != g })
	c.L.Lock()
}
func (c *Cond) Signal() { c.Broadcast() }
func (c *Cond) Broadcast() {
	if !vs.Active() {
		c.n.Broadcast()
		return
	}
	c.gen++
	vs.Event("Cond.Broadcast", unsafe.Pointer(c), false, true)
}

// Pool mirrors sync.Pool: Get hands back the most recently Put item if there
// is one (the adversarial but legal behaviour), else New().
type Pool struct {
	New  func() interface{}
	free []interface{}
	n    sync.Pool
}

func (p *Pool) Get() interface{} {
	if !vs.Active() {
		p.n.New = p.New
		return p.n.Get()
	}
	vs.Point("Pool.Get", unsafe.Pointer(p))
	if n := len(p.free); n > 0 {
		x := p.free[n-1]
		p.free = p.free[:n-1]
		return x
	}
	if p.New != nil {
		return p.New()
	}
	return nil
}

func (p *Pool) Put(x interface{}) {
	if !vs.Active() {
		p.n.Put(x)
		return
	}
	vs.Point("Pool.Put", unsafe.Pointer(p))
	p.free = append(p.free, x)
	// Using an object after putting it back is the classic Pool bug and a data
	// race that the scheduler could not otherwise interleave: yield once more.
	vs.Point("Pool.Put(done)", unsafe.Pointer(p))
}

// OnceFunc mirrors sync.OnceFunc.
func OnceFunc(f func()) func() {
	var o Once
	return func() { o.Do(f) }
}
