// Package vws renders the observable contract of github.com/gorilla/websocket
// v1.5.0 (as far as the repository uses it) in memory on the vs scheduler: a
// connection is a pair of ordered message queues; a close frame makes the
// peer's reads fail with a *CloseError (sticky); closing the underlying
// connection makes the peer's reads fail after the queued messages were
// delivered; writes after a close fail. In pass-through mode every type wraps
// the real gorilla type.
package vws

import (
	"bytes"
	"context"
	"crypto/tls"
	"encoding/binary"
	"encoding/json"
	"errors"
	"fmt"
	"io"
	"net"
	"net/http"
	"net/url"
	"strings"
	"time"
	"unsafe"

	"github.com/gorilla/websocket"

	"github.com/google/inverting-proxy/zz_verif/vs"
)

const (
	TextMessage   = websocket.TextMessage
	BinaryMessage = websocket.BinaryMessage
	CloseMessage  = websocket.CloseMessage
	PingMessage   = websocket.PingMessage
	PongMessage   = websocket.PongMessage

	CloseNormalClosure           = websocket.CloseNormalClosure
	CloseGoingAway               = websocket.CloseGoingAway
	CloseProtocolError           = websocket.CloseProtocolError
	CloseUnsupportedData         = websocket.CloseUnsupportedData
	CloseNoStatusReceived        = websocket.CloseNoStatusReceived
	CloseAbnormalClosure         = websocket.CloseAbnormalClosure
	CloseInvalidFramePayloadData = websocket.CloseInvalidFramePayloadData
	ClosePolicyViolation         = websocket.ClosePolicyViolation
	CloseMessageTooBig           = websocket.CloseMessageTooBig
	CloseMandatoryExtension      = websocket.CloseMandatoryExtension
	CloseInternalServerErr       = websocket.CloseInternalServerErr
	CloseServiceRestart          = websocket.CloseServiceRestart
	CloseTryAgainLater           = websocket.CloseTryAgainLater
	CloseTLSHandshake            = websocket.CloseTLSHandshake
)

type CloseError = websocket.CloseError

var (
	ErrCloseSent    = websocket.ErrCloseSent
	ErrBadHandshake = websocket.ErrBadHandshake
	ErrReadLimit    = websocket.ErrReadLimit
)

func FormatCloseMessage(code int, text string) []byte {
	return websocket.FormatCloseMessage(code, text)
}
func IsWebSocketUpgrade(r *http.Request) bool   { return websocket.IsWebSocketUpgrade(r) }
func IsCloseError(err error, codes ...int) bool { return websocket.IsCloseError(err, codes...) }
func IsUnexpectedCloseError(err error, codes ...int) bool {
	return websocket.IsUnexpectedCloseError(err, codes...)
}
func Subprotocols(r *http.Request) []string { return websocket.Subprotocols(r) }

// Msg is one queued message.
type Msg struct {
	Type int
	Data []byte
}

type half struct {
	q       []Msg
	netDown bool // the writer's end of the underlying connection is gone
	// cap > 0: the socket buffers between writer and reader hold this many messages; a write beyond
	// that waits for the reader (TCP back-pressure), or for the writer's deadline
	cap int
}

// Conn mirrors websocket.Conn.
type Conn struct {
	native *websocket.Conn

	in, out     *half
	closed      bool  // Close() called locally
	closeSent   bool  // a close frame was written
	readErr     error // sticky read error
	subprotocol string
	Name        string
	peer        *Conn
	// Sent records every data message written on this end (harness oracle).
	Sent      []Msg
	wguard    byte
	rguard    byte
	readLimit int64
	// write deadline (virtual clock) and the sticky error of a write that ran into it
	writeDeadline time.Time
	writeErr      error
}

// SetWriteCap bounds the messages written on this end that its peer has not read yet.
func (c *Conn) SetWriteCap(n int) { c.out.cap = n }

type timeoutErr struct{ name string }

func (e *timeoutErr) Error() string   { return "write " + e.name + ": i/o timeout" }
func (e *timeoutErr) Timeout() bool   { return true }
func (e *timeoutErr) Temporary() bool { return true }

// Pair returns two connected ends.
func Pair(a, b string) (*Conn, *Conn) {
	h1, h2 := &half{}, &half{}
	c1 := &Conn{in: h1, out: h2, Name: a}
	c2 := &Conn{in: h2, out: h1, Name: b}
	c1.peer, c2.peer = c2, c1
	w := W()
	w.Open += 2
	w.Conns = append(w.Conns, c1, c2)
	return c1, c2
}

func (c *Conn) Subprotocol() string {
	if c.native != nil {
		return c.native.Subprotocol()
	}
	return c.subprotocol
}

func (c *Conn) ReadMessage() (int, []byte, error) {
	if c.native != nil {
		return c.native.ReadMessage()
	}
	if vs.Aborting() {
		return 0, nil, errors.New("aborted")
	}
	if c.readErr != nil {
		return 0, nil, c.readErr
	}
	// ... and one concurrent reader
	vs.Access(unsafe.Pointer(&c.rguard), "websocket connection "+c.Name+" (concurrent read from websocket connection)", true)
	for {
		vs.Wait("ws.Read "+c.Name, unsafe.Pointer(c.in), func() bool {
			return len(c.in.q) > 0 || c.in.netDown || c.closed
		})
		if c.closed {
			c.readErr = fmt.Errorf("read %s: use of closed network connection", c.Name)
			return 0, nil, c.readErr
		}
		if len(c.in.q) == 0 {
			c.readErr = &CloseError{Code: CloseAbnormalClosure, Text: "unexpected EOF"}
			return 0, nil, c.readErr
		}
		m := c.in.q[0]
		c.in.q = c.in.q[1:]
		if c.in.cap > 0 {
			// room for a writer held back by back-pressure
			vs.Event("ws.read", unsafe.Pointer(c.in), false, true)
		}
		switch m.Type {
		case CloseMessage:
			code, text := CloseNoStatusReceived, ""
			if len(m.Data) >= 2 {
				code = int(binary.BigEndian.Uint16(m.Data))
				text = string(m.Data[2:])
			}
			// default close handler echoes the close frame
			if !c.closeSent && !c.closed && !c.out.netDown {
				c.closeSent = true
				c.out.q = append(c.out.q, Msg{CloseMessage, FormatCloseMessage(code, "")})
				vs.Event("ws.echoClose", unsafe.Pointer(c.out), false, true)
			}
			c.readErr = &CloseError{Code: code, Text: text}
			return 0, nil, c.readErr
		case PingMessage, PongMessage:
			continue
		}
		if c.readLimit > 0 && int64(len(m.Data)) > c.readLimit {
			// gorilla: a message beyond the read limit fails the read for good (and tells the peer 1009)
			if !c.closeSent && !c.closed && !c.out.netDown {
				c.closeSent = true
				c.out.q = append(c.out.q, Msg{CloseMessage, FormatCloseMessage(CloseMessageTooBig, "")})
				vs.Event("ws.tooBig", unsafe.Pointer(c.out), false, true)
			}
			c.readErr = ErrReadLimit
			return 0, nil, c.readErr
		}
		return m.Type, m.Data, nil
	}
}

func (c *Conn) WriteMessage(messageType int, data []byte) error {
	if c.native != nil {
		return c.native.WriteMessage(messageType, data)
	}
	if vs.Aborting() {
		return errors.New("aborted")
	}
	vs.Point("ws.Write "+c.Name, unsafe.Pointer(c.out))
	// gorilla supports one concurrent writer: two WriteMessage calls that are not
	// ordered by synchronisation panic with "concurrent write to websocket connection"
	vs.Access(unsafe.Pointer(&c.wguard), "websocket connection "+c.Name+" (concurrent write to websocket connection)", true)
	if c.closed {
		return fmt.Errorf("write %s: use of closed network connection", c.Name)
	}
	if c.closeSent {
		return ErrCloseSent
	}
	if c.peer.closed {
		return fmt.Errorf("write %s: broken pipe", c.Name)
	}
	if c.writeErr != nil {
		// gorilla: a failed write poisons the connection for writing
		return c.writeErr
	}
	if c.out.cap > 0 && len(c.out.q) >= c.out.cap {
		expired := false
		cancel := func() bool { return false }
		if !c.writeDeadline.IsZero() {
			cancel = vs.S.AddTimer(c.writeDeadline.Sub(vs.Epoch.Add(vs.S.Now())), "ws write deadline "+c.Name, func() { expired = true })
		}
		vs.Wait("ws.Write(peer is not reading) "+c.Name, unsafe.Pointer(c.out), func() bool {
			return len(c.out.q) < c.out.cap || c.closed || c.peer.closed || expired
		})
		cancel()
		if vs.Aborting() {
			return errors.New("aborted")
		}
		if c.closed {
			return fmt.Errorf("write %s: use of closed network connection", c.Name)
		}
		if c.peer.closed {
			return fmt.Errorf("write %s: broken pipe", c.Name)
		}
		if len(c.out.q) >= c.out.cap {
			// part of the frame may be on the wire: nothing more can be written on this connection
			c.writeErr = &timeoutErr{c.Name}
			return c.writeErr
		}
	}
	d := append([]byte{}, data...)
	if messageType == CloseMessage {
		c.closeSent = true
	} else if messageType == TextMessage || messageType == BinaryMessage {
		c.Sent = append(c.Sent, Msg{messageType, d})
	}
	c.out.q = append(c.out.q, Msg{messageType, d})
	return nil
}

func (c *Conn) WriteControl(messageType int, data []byte, deadline time.Time) error {
	if c.native != nil {
		return c.native.WriteControl(messageType, data, deadline)
	}
	return c.WriteMessage(messageType, data)
}

func (c *Conn) Close() error {
	if c.native != nil {
		return c.native.Close()
	}
	if vs.Active() && !vs.Aborting() {
		vs.Point("ws.Close "+c.Name, unsafe.Pointer(c.out))
	}
	if c.closed {
		return errors.New("use of closed network connection")
	}
	c.closed = true
	c.out.netDown = true
	if vs.Active() && !vs.Aborting() {
		W().Open--
		vs.Event("ws.Close", unsafe.Pointer(c.out), false, true)
		vs.Event("ws.Close", unsafe.Pointer(c.in), false, true)
	}
	return nil
}

// Closed reports whether Close was called on this end.
func (c *Conn) Closed() bool { return c.closed }

// CloseSent reports whether a close frame was written on this end.
func (c *Conn) CloseSent() bool { return c.closeSent }

// Pending returns the messages queued for this end.
func (c *Conn) Pending() []Msg { return c.in.q }

func (c *Conn) SetReadDeadline(t time.Time) error {
	if c.native != nil {
		return c.native.SetReadDeadline(t)
	}
	return nil
}
func (c *Conn) SetWriteDeadline(t time.Time) error {
	if c.native != nil {
		return c.native.SetWriteDeadline(t)
	}
	c.writeDeadline = t
	return nil
}
func (c *Conn) SetReadLimit(l int64) {
	if c.native != nil {
		c.native.SetReadLimit(l)
		return
	}
	c.readLimit = l
}
func (c *Conn) LocalAddr() net.Addr {
	if c.native != nil {
		return c.native.LocalAddr()
	}
	return wsAddr(c.Name)
}
func (c *Conn) RemoteAddr() net.Addr {
	if c.native != nil {
		return c.native.RemoteAddr()
	}
	return wsAddr(c.peer.Name)
}
func (c *Conn) SetPingHandler(h func(string) error) {
	if c.native != nil {
		c.native.SetPingHandler(h)
	}
}
func (c *Conn) SetPongHandler(h func(string) error) {
	if c.native != nil {
		c.native.SetPongHandler(h)
	}
}
func (c *Conn) SetCloseHandler(h func(int, string) error) {
	if c.native != nil {
		c.native.SetCloseHandler(h)
	}
}

type wsAddr string

func (a wsAddr) Network() string { return "websocket" }
func (a wsAddr) String() string  { return string(a) }

// DialRecord is one dial attempt seen by the world.
type DialRecord struct {
	URL    string
	Host   string // address the dialler would connect to (gorilla's hostPortNoPort rule)
	Header http.Header
	Err    string
}

// World is the per-execution registry.
type World struct {
	owner *vs.Sched
	// OnDial decides a dial: it returns the client end (or an error).
	OnDial func(u *url.URL, h http.Header) (*Conn, error)
	// Handlers lets a dial reach an http.Handler of the same process (TCP bridge).
	Handlers map[string]http.Handler
	Dials    []DialRecord
	Open     int
	Conns    []*Conn
}

var world *World

func W() *World {
	if world == nil || world.owner != vs.S {
		world = &World{owner: vs.S, Handlers: map[string]http.Handler{}}
	}
	return world
}

// Dialer mirrors websocket.Dialer.
type Dialer struct {
	NetDial           func(network, addr string) (net.Conn, error)
	NetDialContext    func(ctx context.Context, network, addr string) (net.Conn, error)
	Proxy             func(*http.Request) (*url.URL, error)
	HandshakeTimeout  time.Duration
	ReadBufferSize    int
	WriteBufferSize   int
	Subprotocols      []string
	EnableCompression bool
	Jar               http.CookieJar
	TLSClientConfig   *tls.Config
	NetDialTLSContext func(ctx context.Context, network, addr string) (net.Conn, error)
}

var DefaultDialer = &Dialer{Proxy: http.ProxyFromEnvironment, HandshakeTimeout: 45 * time.Second}

func (d *Dialer) Dial(urlStr string, requestHeader http.Header) (*Conn, *http.Response, error) {
	return d.DialContext(context.Background(), urlStr, requestHeader)
}

// hostPortNoPort is gorilla's rule for the address to connect to.
func hostPortNoPort(u *url.URL) (hostPort, hostNoPort string) {
	hostPort = u.Host
	hostNoPort = u.Host
	if i := strings.LastIndex(u.Host, ":"); i > strings.LastIndex(u.Host, "]") {
		hostNoPort = hostNoPort[:i]
	} else {
		switch u.Scheme {
		case "wss":
			hostPort += ":443"
		case "https":
			hostPort += ":443"
		default:
			hostPort += ":80"
		}
	}
	return hostPort, hostNoPort
}

type upgradeKey struct{}

// TestHookDial, if set, sees every URL handed to a Dialer in pass-through mode.
var TestHookDial func(urlStr string, requestHeader http.Header)

func (d *Dialer) DialContext(ctx context.Context, urlStr string, requestHeader http.Header) (*Conn, *http.Response, error) {
	if !vs.Active() {
		if TestHookDial != nil {
			TestHookDial(urlStr, requestHeader)
		}
		nd := &websocket.Dialer{NetDial: d.NetDial, NetDialContext: d.NetDialContext, Proxy: d.Proxy, HandshakeTimeout: d.HandshakeTimeout,
			ReadBufferSize: d.ReadBufferSize, WriteBufferSize: d.WriteBufferSize, Subprotocols: d.Subprotocols, EnableCompression: d.EnableCompression, Jar: d.Jar, TLSClientConfig: d.TLSClientConfig, NetDialTLSContext: d.NetDialTLSContext}
		c, resp, err := nd.DialContext(ctx, urlStr, requestHeader)
		if err != nil {
			return nil, resp, err
		}
		return &Conn{native: c}, resp, nil
	}
	if vs.Aborting() {
		return nil, nil, errors.New("aborted")
	}
	vs.Point("ws.Dial", nil)
	w := W()
	rec := DialRecord{URL: urlStr, Header: requestHeader.Clone()}
	u, err := url.Parse(urlStr)
	if err != nil {
		rec.Err = err.Error()
		w.Dials = append(w.Dials, rec)
		return nil, nil, err
	}
	switch u.Scheme {
	case "ws":
		u.Scheme = "http"
	case "wss":
		u.Scheme = "https"
	default:
		rec.Err = "malformed ws or wss URL"
		w.Dials = append(w.Dials, rec)
		return nil, nil, errors.New("malformed ws or wss URL")
	}
	if u.User != nil {
		rec.Err = "malformed ws or wss URL"
		w.Dials = append(w.Dials, rec)
		return nil, nil, errors.New("malformed ws or wss URL")
	}
	for k := range requestHeader {
		switch k {
		case "Upgrade", "Connection", "Sec-Websocket-Key", "Sec-Websocket-Version", "Sec-Websocket-Extensions":
			rec.Err = "duplicate header not allowed: " + k
			w.Dials = append(w.Dials, rec)
			return nil, nil, errors.New("websocket: duplicate header not allowed: " + k)
		}
	}
	rec.Host, _ = hostPortNoPort(u)
	if h := w.Handlers[rec.Host]; h != nil {
		c, s := Pair("ws-client", "ws-server")
		req, _ := http.NewRequest("GET", u.String(), nil)
		for k, v := range requestHeader {
			req.Header[k] = v
		}
		req.Header.Set("Upgrade", "websocket")
		req.Header.Set("Connection", "Upgrade")
		req.Header.Set("Sec-Websocket-Version", "13")
		req.Header.Set("Sec-Websocket-Key", "dGhlIHNhbXBsZSBub25jZQ==")
		req = req.WithContext(context.WithValue(ctx, upgradeKey{}, s))
		w.Dials = append(w.Dials, rec)
		vs.Go(func() { h.ServeHTTP(&nullRW{h: http.Header{}}, req) })
		return c, &http.Response{StatusCode: 101, Header: http.Header{}}, nil
	}
	if w.OnDial == nil {
		rec.Err = "connection refused"
		w.Dials = append(w.Dials, rec)
		return nil, nil, fmt.Errorf("dial tcp %s: connect: connection refused", rec.Host)
	}
	c, err := w.OnDial(u, requestHeader)
	if err != nil {
		rec.Err = err.Error()
	}
	w.Dials = append(w.Dials, rec)
	if err != nil {
		if bh, ok := err.(*BadHandshake); ok {
			// the peer answered the handshake with something other than 101
			return nil, bh.Resp, ErrBadHandshake
		}
		return nil, nil, err
	}
	return c, &http.Response{StatusCode: 101, Header: http.Header{}}, nil
}

// BadHandshake is returned by OnDial to make the dial fail the way gorilla does
// when the peer answers the opening handshake with a non-101 response.
type BadHandshake struct{ Resp *http.Response }

func (b *BadHandshake) Error() string { return ErrBadHandshake.Error() }

type nullRW struct {
	h    http.Header
	Code int
}

func (n *nullRW) Header() http.Header         { return n.h }
func (n *nullRW) Write(p []byte) (int, error) { return len(p), nil }
func (n *nullRW) WriteHeader(c int)           { n.Code = c }

// Upgrader mirrors websocket.Upgrader.
type Upgrader struct {
	HandshakeTimeout  time.Duration
	ReadBufferSize    int
	WriteBufferSize   int
	Subprotocols      []string
	Error             func(w http.ResponseWriter, r *http.Request, status int, reason error)
	CheckOrigin       func(r *http.Request) bool
	EnableCompression bool
}

func (u *Upgrader) Upgrade(w http.ResponseWriter, r *http.Request, responseHeader http.Header) (*Conn, error) {
	if !vs.Active() {
		nu := &websocket.Upgrader{HandshakeTimeout: u.HandshakeTimeout, ReadBufferSize: u.ReadBufferSize, WriteBufferSize: u.WriteBufferSize,
			Subprotocols: u.Subprotocols, Error: u.Error, CheckOrigin: u.CheckOrigin, EnableCompression: u.EnableCompression}
		c, err := nu.Upgrade(w, r, responseHeader)
		if err != nil {
			return nil, err
		}
		return &Conn{native: c}, nil
	}
	s, _ := r.Context().Value(upgradeKey{}).(*Conn)
	if s == nil {
		http.Error(w, "not a websocket handshake", http.StatusBadRequest)
		return nil, errors.New("websocket: the client is not using the websocket protocol")
	}
	// the refusals of gorilla's Upgrade that a peer can provoke
	if v := r.Header.Get("Sec-Websocket-Version"); v != "13" {
		http.Error(w, "Bad Request", http.StatusBadRequest)
		return nil, errors.New("websocket: unsupported version: 13 not found in 'Sec-Websocket-Version' header")
	}
	if _, ok := responseHeader["Sec-Websocket-Extensions"]; ok {
		http.Error(w, "Internal Server Error", http.StatusInternalServerError)
		return nil, errors.New("websocket: application specific 'Sec-WebSocket-Extensions' headers are unsupported")
	}
	return s, nil
}

// Handshake builds the upgrade request a raw client would send for urlStr (with extra header fields the
// dialler itself would refuse to send, such as Sec-WebSocket-Extensions or another version) and the
// client's end of the connection that results if the handler accepts it.
func Handshake(ctx context.Context, urlStr string, extra http.Header) (*http.Request, *Conn) {
	c, s := Pair("ws-client", "ws-server")
	req, _ := http.NewRequest("GET", urlStr, nil)
	req.Header.Set("Upgrade", "websocket")
	req.Header.Set("Connection", "Upgrade")
	req.Header.Set("Sec-Websocket-Version", "13")
	req.Header.Set("Sec-Websocket-Key", "dGhlIHNhbXBsZSBub25jZQ==")
	for k, v := range extra {
		req.Header[k] = v
	}
	return req.WithContext(context.WithValue(ctx, upgradeKey{}, s)), c
}

// NullResponseWriter is a response writer for handlers reached through Handshake.
func NullResponseWriter() http.ResponseWriter { return &nullRW{h: http.Header{}} }

// ---- the rest of the Conn API, in terms of ReadMessage / WriteMessage ----

type msgReader struct{ r *bytes.Reader }

func (m msgReader) Read(p []byte) (int, error) { return m.r.Read(p) }

// NextReader mirrors websocket.Conn.NextReader.
func (c *Conn) NextReader() (int, io.Reader, error) {
	if c.native != nil {
		return c.native.NextReader()
	}
	t, d, err := c.ReadMessage()
	if err != nil {
		return 0, nil, err
	}
	return t, msgReader{bytes.NewReader(d)}, nil
}

type msgWriter struct {
	c   *Conn
	t   int
	buf bytes.Buffer
}

func (m *msgWriter) Write(p []byte) (int, error) { return m.buf.Write(p) }
func (m *msgWriter) Close() error                { return m.c.WriteMessage(m.t, m.buf.Bytes()) }

// NextWriter mirrors websocket.Conn.NextWriter.
func (c *Conn) NextWriter(messageType int) (io.WriteCloser, error) {
	if c.native != nil {
		return c.native.NextWriter(messageType)
	}
	if c.closed {
		return nil, fmt.Errorf("write %s: use of closed network connection", c.Name)
	}
	return &msgWriter{c: c, t: messageType}, nil
}

func (c *Conn) ReadJSON(v interface{}) error {
	if c.native != nil {
		return c.native.ReadJSON(v)
	}
	_, d, err := c.ReadMessage()
	if err != nil {
		return err
	}
	return json.Unmarshal(d, v)
}

func (c *Conn) WriteJSON(v interface{}) error {
	if c.native != nil {
		return c.native.WriteJSON(v)
	}
	b, err := json.Marshal(v)
	if err != nil {
		return err
	}
	return c.WriteMessage(TextMessage, b)
}

func (c *Conn) EnableWriteCompression(enable bool) {
	if c.native != nil {
		c.native.EnableWriteCompression(enable)
	}
}

func (c *Conn) SetCompressionLevel(level int) error {
	if c.native != nil {
		return c.native.SetCompressionLevel(level)
	}
	return nil
}

func (c *Conn) UnderlyingConn() net.Conn {
	if c.native != nil {
		return c.native.UnderlyingConn()
	}
	return nil
}

func (c *Conn) CloseHandler() func(code int, text string) error {
	if c.native != nil {
		return c.native.CloseHandler()
	}
	return func(int, string) error { return nil }
}

func (c *Conn) PingHandler() func(appData string) error {
	if c.native != nil {
		return c.native.PingHandler()
	}
	return func(string) error { return nil }
}

func (c *Conn) PongHandler() func(appData string) error {
	if c.native != nil {
		return c.native.PongHandler()
	}
	return func(string) error { return nil }
}

// JoinMessages mirrors websocket.JoinMessages for native connections only.
func JoinMessages(c *Conn, term string) io.Reader {
	if c.native != nil {
		return websocket.JoinMessages(c.native, term)
	}
	return strings.NewReader("")
}
