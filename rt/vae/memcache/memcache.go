// Package memcache mirrors google.golang.org/appengine/v2/memcache on the vae world.
package memcache

import (
	"bytes"
	"context"
	"encoding/gob"
	"errors"
	"fmt"
	"time"

	"github.com/google/inverting-proxy/zz_verif/vae"
)

var (
	ErrCacheMiss   = errors.New("memcache: cache miss")
	ErrCASConflict = errors.New("memcache: compare-and-swap conflict")
	ErrNotStored   = errors.New("memcache: item not stored")
	ErrServerError = errors.New("memcache: server error")
	ErrNoStats     = errors.New("memcache: no statistics available")
)

const maxItemBytes = 1 << 20 // values (plus key) above 1 MiB are refused

// Item mirrors memcache.Item.
type Item struct {
	Key        string
	Value      []byte
	Object     interface{}
	Flags      uint32
	Expiration time.Duration
}

func set(ctx context.Context, key string, value []byte) error {
	w := vae.W()
	if err := w.Call(vae.Op{Service: "mc", Op: "Set", Keys: []string{key}}); err != nil {
		return err
	}
	if len(key) > 250 {
		return fmt.Errorf("memcache: key too long (%d)", len(key))
	}
	if len(value)+len(key) > maxItemBytes {
		return ErrServerError
	}
	w.Memcache[key] = append([]byte{}, value...)
	return nil
}

func get(ctx context.Context, key string) ([]byte, error) {
	w := vae.W()
	if err := w.Call(vae.Op{Service: "mc", Op: "Get", Keys: []string{key}}); err != nil {
		return nil, err
	}
	v, ok := w.Memcache[key]
	if !ok {
		return nil, ErrCacheMiss
	}
	return append([]byte{}, v...), nil
}

func Set(ctx context.Context, item *Item) error { return set(ctx, item.Key, item.Value) }
func Add(ctx context.Context, item *Item) error {
	if _, ok := vae.W().Memcache[item.Key]; ok {
		return ErrNotStored
	}
	return set(ctx, item.Key, item.Value)
}
func Get(ctx context.Context, key string) (*Item, error) {
	v, err := get(ctx, key)
	if err != nil {
		return nil, err
	}
	return &Item{Key: key, Value: v}, nil
}
func Delete(ctx context.Context, key string) error {
	w := vae.W()
	if err := w.Call(vae.Op{Service: "mc", Op: "Delete", Keys: []string{key}}); err != nil {
		return err
	}
	if _, ok := w.Memcache[key]; !ok {
		return ErrCacheMiss
	}
	delete(w.Memcache, key)
	return nil
}
func Flush(ctx context.Context) error { vae.W().Memcache = map[string][]byte{}; return nil }

// Codec mirrors memcache.Codec.
type Codec struct {
	Marshal   func(interface{}) ([]byte, error)
	Unmarshal func([]byte, interface{}) error
}

func (cd Codec) Set(ctx context.Context, item *Item) error {
	b, err := cd.Marshal(item.Object)
	if err != nil {
		return err
	}
	return set(ctx, item.Key, b)
}

func (cd Codec) Add(ctx context.Context, item *Item) error {
	if _, ok := vae.W().Memcache[item.Key]; ok {
		return ErrNotStored
	}
	return cd.Set(ctx, item)
}

func (cd Codec) Get(ctx context.Context, key string, v interface{}) (*Item, error) {
	b, err := get(ctx, key)
	if err != nil {
		return nil, err
	}
	if err := cd.Unmarshal(b, v); err != nil {
		return nil, err
	}
	return &Item{Key: key, Value: b, Object: v}, nil
}

func gobMarshal(v interface{}) ([]byte, error) {
	var buf bytes.Buffer
	if err := gob.NewEncoder(&buf).Encode(v); err != nil {
		return nil, err
	}
	return buf.Bytes(), nil
}

func gobUnmarshal(data []byte, v interface{}) error {
	return gob.NewDecoder(bytes.NewBuffer(data)).Decode(v)
}

var Gob = Codec{gobMarshal, gobUnmarshal}
