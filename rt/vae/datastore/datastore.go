// Package datastore mirrors google.golang.org/appengine/v2/datastore on the vae world.
package datastore

import (
	"context"
	"errors"
	"fmt"
	"reflect"
	"sort"
	"strings"
	"time"

	"github.com/google/inverting-proxy/zz_verif/vae"
)

var (
	ErrNoSuchEntity          = errors.New("datastore: no such entity")
	ErrInvalidEntityType     = errors.New("datastore: invalid entity type")
	ErrInvalidKey            = errors.New("datastore: invalid key")
	ErrConcurrentTransaction = errors.New("datastore: concurrent transaction")
)

// MultiError is appengine.MultiError (the type batch operations return).
type MultiError = vae.MultiError

const (
	maxEntityBytes = 1048572
	maxMultiKeys   = 500
	maxGetKeys     = 1000
)

// Key mirrors datastore.Key (string ids only).
type Key struct {
	kind     string
	stringID string
	intID    int64
	parent   *Key
}

func (k *Key) Kind() string     { return k.kind }
func (k *Key) StringID() string { return k.stringID }
func (k *Key) IntID() int64     { return k.intID }
func (k *Key) Parent() *Key     { return k.parent }
func (k *Key) String() string   { return "/" + k.kind + "," + k.id() }
func (k *Key) Incomplete() bool { return k.stringID == "" && k.intID == 0 }
func (k *Key) Equal(o *Key) bool {
	return k != nil && o != nil && k.kind == o.kind && k.stringID == o.stringID && k.intID == o.intID
}
func (k *Key) id() string {
	if k.stringID != "" {
		return k.stringID
	}
	return fmt.Sprintf("#%d", k.intID)
}

func NewKey(ctx context.Context, kind, stringID string, intID int64, parent *Key) *Key {
	return &Key{kind: kind, stringID: stringID, intID: intID, parent: parent}
}

func deepCopy(v reflect.Value) interface{} {
	switch v.Kind() {
	case reflect.Slice:
		if v.IsNil() {
			return reflect.Zero(v.Type()).Interface()
		}
		if v.Type().Elem().Kind() == reflect.Uint8 {
			n := reflect.MakeSlice(v.Type(), v.Len(), v.Len())
			reflect.Copy(n, v)
			return n.Interface()
		}
		n := reflect.MakeSlice(v.Type(), v.Len(), v.Len())
		for i := 0; i < v.Len(); i++ {
			n.Index(i).Set(reflect.ValueOf(deepCopy(v.Index(i))))
		}
		return n.Interface()
	case reflect.Struct:
		if v.Type() == reflect.TypeOf(time.Time{}) {
			return v.Interface()
		}
		n := reflect.New(v.Type()).Elem()
		for i := 0; i < v.NumField(); i++ {
			if v.Type().Field(i).PkgPath != "" {
				continue
			}
			n.Field(i).Set(reflect.ValueOf(deepCopy(v.Field(i))))
		}
		return n.Interface()
	}
	return v.Interface()
}

func sizeOf(v reflect.Value) int {
	switch v.Kind() {
	case reflect.String:
		return v.Len()
	case reflect.Slice:
		if v.Type().Elem().Kind() == reflect.Uint8 {
			return v.Len()
		}
		n := 0
		for i := 0; i < v.Len(); i++ {
			n += sizeOf(v.Index(i))
		}
		return n
	case reflect.Struct:
		if v.Type() == reflect.TypeOf(time.Time{}) {
			return 8
		}
		n := 0
		for i := 0; i < v.NumField(); i++ {
			n += sizeOf(v.Field(i)) + len(v.Type().Field(i).Name)
		}
		return n
	}
	return 8
}

func structOf(src interface{}) (reflect.Value, error) {
	v := reflect.ValueOf(src)
	if v.Kind() != reflect.Ptr || v.IsNil() || v.Elem().Kind() != reflect.Struct {
		return reflect.Value{}, ErrInvalidEntityType
	}
	return v.Elem(), nil
}

func store(w *vae.World, key *Key, sv reflect.Value) error {
	sz := sizeOf(sv)
	if sz > maxEntityBytes {
		return fmt.Errorf("datastore: entity is too big (%d bytes, limit %d)", sz, maxEntityBytes)
	}
	e := &vae.Entity{Kind: key.kind, ID: key.id(), Fields: map[string]interface{}{}, Size: sz}
	for i := 0; i < sv.NumField(); i++ {
		f := sv.Type().Field(i)
		if f.PkgPath != "" {
			continue
		}
		e.Fields[f.Name] = deepCopy(sv.Field(i))
	}
	if w.Kinds[key.kind] == nil {
		w.Kinds[key.kind] = map[string]*vae.Entity{}
	}
	w.Kinds[key.kind][key.id()] = e
	return nil
}

func load(e *vae.Entity, dv reflect.Value) {
	for i := 0; i < dv.NumField(); i++ {
		f := dv.Type().Field(i)
		if f.PkgPath != "" {
			continue
		}
		if val, ok := e.Fields[f.Name]; ok {
			rv := reflect.ValueOf(val)
			if rv.IsValid() && rv.Type().AssignableTo(f.Type) {
				dv.Field(i).Set(reflect.ValueOf(deepCopy(rv)))
			} else if rv.IsValid() && rv.Type().ConvertibleTo(f.Type) {
				dv.Field(i).Set(rv.Convert(f.Type))
			}
		}
	}
}

func Put(ctx context.Context, key *Key, src interface{}) (*Key, error) {
	w := vae.W()
	if err := w.Call(vae.Op{Service: "ds", Op: "Put", Kind: key.kind, Keys: []string{key.id()}}); err != nil {
		return nil, err
	}
	sv, err := structOf(src)
	if err != nil {
		return nil, err
	}
	if err := store(w, key, sv); err != nil {
		return nil, err
	}
	return key, nil
}

func PutMulti(ctx context.Context, keys []*Key, src interface{}) ([]*Key, error) {
	if len(keys) > maxMultiKeys {
		return nil, fmt.Errorf("datastore: too many keys in one call (%d, limit %d)", len(keys), maxMultiKeys)
	}
	sv := reflect.ValueOf(src)
	for i, k := range keys {
		if _, err := Put(ctx, k, sv.Index(i).Interface()); err != nil {
			return nil, err
		}
	}
	return keys, nil
}

func Get(ctx context.Context, key *Key, dst interface{}) error {
	w := vae.W()
	if err := w.Call(vae.Op{Service: "ds", Op: "Get", Kind: key.kind, Keys: []string{key.id()}}); err != nil {
		return err
	}
	e := w.Kinds[key.kind][key.id()]
	if e == nil {
		return ErrNoSuchEntity
	}
	dv, err := structOf(dst)
	if err != nil {
		return err
	}
	load(e, dv)
	return nil
}

func GetMulti(ctx context.Context, keys []*Key, dst interface{}) error {
	w := vae.W()
	var ids []string
	kind := ""
	for _, k := range keys {
		ids = append(ids, k.id())
		kind = k.kind
	}
	if len(keys) > maxGetKeys {
		return fmt.Errorf("datastore: too many keys in one call (%d, limit %d)", len(keys), maxGetKeys)
	}
	if err := w.Call(vae.Op{Service: "ds", Op: "GetMulti", Kind: kind, Keys: ids}); err != nil {
		return err
	}
	dv := reflect.ValueOf(dst)
	if dv.Kind() != reflect.Slice || dv.Len() != len(keys) {
		return errors.New("datastore: keys and dst slices have different length")
	}
	me := make(MultiError, len(keys))
	any := false
	for i, k := range keys {
		e := w.Kinds[k.kind][k.id()]
		if e == nil {
			me[i] = ErrNoSuchEntity
			any = true
			continue
		}
		el := dv.Index(i)
		if el.Kind() == reflect.Ptr {
			if el.IsNil() {
				el.Set(reflect.New(el.Type().Elem()))
			}
			load(e, el.Elem())
		} else {
			load(e, el)
		}
	}
	if any {
		return me
	}
	return nil
}

func Delete(ctx context.Context, key *Key) error {
	w := vae.W()
	if err := w.Call(vae.Op{Service: "ds", Op: "Delete", Kind: key.kind, Keys: []string{key.id()}}); err != nil {
		return err
	}
	delete(w.Kinds[key.kind], key.id())
	return nil
}

func DeleteMulti(ctx context.Context, keys []*Key) error {
	w := vae.W()
	var ids []string
	kind := ""
	for _, k := range keys {
		ids = append(ids, k.id())
		kind = k.kind
	}
	if len(keys) > maxMultiKeys {
		return fmt.Errorf("datastore: too many keys in one call (%d, limit %d)", len(keys), maxMultiKeys)
	}
	if err := w.Call(vae.Op{Service: "ds", Op: "DeleteMulti", Kind: kind, Keys: ids}); err != nil {
		return err
	}
	for _, k := range keys {
		delete(w.Kinds[k.kind], k.id())
	}
	return nil
}

// TransactionOptions mirrors datastore.TransactionOptions.
type TransactionOptions struct {
	XG       bool
	Attempts int
	ReadOnly bool
}

// RunInTransaction runs f; the fake provides no isolation or rollback.
func RunInTransaction(ctx context.Context, f func(tc context.Context) error, opts *TransactionOptions) error {
	if err := vae.W().Call(vae.Op{Service: "ds", Op: "BeginTransaction"}); err != nil {
		return err
	}
	return f(ctx)
}

// Query mirrors datastore.Query.
type Query struct {
	kind     string
	filters  []filter
	keysOnly bool
	limit    int
	order    []string
	err      error
}

type filter struct {
	field string
	op    string
	val   interface{}
}

func NewQuery(kind string) *Query { return &Query{kind: kind, limit: -1} }

func (q *Query) clone() *Query { c := *q; c.filters = append([]filter{}, q.filters...); return &c }

func (q *Query) Filter(filterStr string, value interface{}) *Query {
	c := q.clone()
	s := strings.TrimSpace(filterStr)
	for _, op := range []string{"<=", ">=", "<", ">", "="} {
		if strings.HasSuffix(s, op) {
			c.filters = append(c.filters, filter{strings.TrimSpace(strings.TrimSuffix(s, op)), op, value})
			return c
		}
	}
	c.err = fmt.Errorf("datastore: invalid filter %q", filterStr)
	return c
}
func (q *Query) Distinct() *Query           { return q.clone() }
func (q *Query) KeysOnly() *Query           { c := q.clone(); c.keysOnly = true; return c }
func (q *Query) Limit(n int) *Query         { c := q.clone(); c.limit = n; return c }
func (q *Query) Order(f string) *Query      { c := q.clone(); c.order = append(c.order, f); return c }
func (q *Query) Ancestor(k *Key) *Query     { return q.clone() }
func (q *Query) Offset(n int) *Query        { return q.clone() }
func (q *Query) Project(f ...string) *Query { return q.clone() }

func cmp(a, b interface{}) (int, bool) {
	switch x := a.(type) {
	case string:
		y, ok := b.(string)
		if !ok {
			return 0, false
		}
		return strings.Compare(x, y), true
	case bool:
		y, ok := b.(bool)
		if !ok {
			return 0, false
		}
		if x == y {
			return 0, true
		}
		if !x {
			return -1, true
		}
		return 1, true
	case time.Time:
		y, ok := b.(time.Time)
		if !ok {
			return 0, false
		}
		if x.Before(y) {
			return -1, true
		}
		if x.After(y) {
			return 1, true
		}
		return 0, true
	case int, int64, int32:
		xi := reflect.ValueOf(a).Int()
		yv := reflect.ValueOf(b)
		if yv.Kind() < reflect.Int || yv.Kind() > reflect.Int64 {
			return 0, false
		}
		yi := yv.Int()
		if xi < yi {
			return -1, true
		}
		if xi > yi {
			return 1, true
		}
		return 0, true
	}
	return 0, false
}

func (f filter) match(e *vae.Entity) bool {
	v, ok := e.Fields[f.field]
	if !ok {
		return false
	}
	test := func(x interface{}) bool {
		c, ok := cmp(x, f.val)
		if !ok {
			return false
		}
		switch f.op {
		case "=":
			return c == 0
		case "<":
			return c < 0
		case ">":
			return c > 0
		case "<=":
			return c <= 0
		case ">=":
			return c >= 0
		}
		return false
	}
	rv := reflect.ValueOf(v)
	if rv.Kind() == reflect.Slice && rv.Type().Elem().Kind() != reflect.Uint8 {
		for i := 0; i < rv.Len(); i++ {
			if test(rv.Index(i).Interface()) {
				return true
			}
		}
		return false
	}
	return test(v)
}

// GetAll mirrors Query.GetAll: results in key order.
func (q *Query) GetAll(ctx context.Context, dst interface{}) ([]*Key, error) {
	w := vae.W()
	if q.err != nil {
		return nil, q.err
	}
	if err := w.Call(vae.Op{Service: "ds", Op: "Query", Kind: q.kind}); err != nil {
		return nil, err
	}
	var ids []string
	for id, e := range w.Kinds[q.kind] {
		ok := true
		for _, f := range q.filters {
			if !f.match(e) {
				ok = false
			}
		}
		if ok {
			ids = append(ids, id)
		}
	}
	sort.Strings(ids)
	if q.limit >= 0 && len(ids) > q.limit {
		ids = ids[:q.limit]
	}
	var keys []*Key
	for _, id := range ids {
		keys = append(keys, &Key{kind: q.kind, stringID: id})
	}
	if q.keysOnly || dst == nil {
		return keys, nil
	}
	dv := reflect.ValueOf(dst)
	if dv.Kind() != reflect.Ptr || dv.Elem().Kind() != reflect.Slice {
		return nil, ErrInvalidEntityType
	}
	sl := dv.Elem()
	et := sl.Type().Elem()
	for _, id := range ids {
		e := w.Kinds[q.kind][id]
		if et.Kind() == reflect.Ptr {
			n := reflect.New(et.Elem())
			load(e, n.Elem())
			sl = reflect.Append(sl, n)
		} else {
			n := reflect.New(et).Elem()
			load(e, n)
			sl = reflect.Append(sl, n)
		}
	}
	dv.Elem().Set(sl)
	return keys, nil
}

// Count mirrors Query.Count.
func (q *Query) Count(ctx context.Context) (int, error) {
	k, err := q.KeysOnly().GetAll(ctx, nil)
	return len(k), err
}
