// Package user mirrors google.golang.org/appengine/v2/user on the vae request environment.
package user

import (
	"context"
	"errors"

	"github.com/google/inverting-proxy/zz_verif/vae"
)

// User mirrors user.User.
type User struct {
	Email             string
	AuthDomain        string
	Admin             bool
	ID                string
	ClientID          string
	FederatedIdentity string
	FederatedProvider string
}

func (u *User) String() string { return u.Email }

func Current(ctx context.Context) *User {
	e := vae.EnvOf(ctx)
	if e.User == "" {
		return nil
	}
	return &User{Email: e.User, Admin: e.Admin, ID: "id-" + e.User}
}

func IsAdmin(ctx context.Context) bool { return vae.EnvOf(ctx).User != "" && vae.EnvOf(ctx).Admin }

func CurrentOAuth(ctx context.Context, scopes ...string) (*User, error) {
	e := vae.EnvOf(ctx)
	if e.OAuthUser == "" {
		return nil, errors.New("oauth: no valid OAuth authorization header")
	}
	return &User{Email: e.OAuthUser, Admin: e.OAuthAdmin, ID: "id-" + e.OAuthUser}, nil
}

func LoginURL(ctx context.Context, dest string) (string, error) {
	return "/_ah/login?continue=" + dest, nil
}
func LogoutURL(ctx context.Context, dest string) (string, error) {
	return "/_ah/logout?continue=" + dest, nil
}
