// Package vae is an in-memory rendering of the parts of App Engine
// (google.golang.org/appengine/v2 and its datastore, memcache and user
// packages) that app/ uses. Identity, module and request id are attributes of
// the incoming request (headers the harness sets, as App Engine's front end
// would establish them); every service call is a scheduling point and a
// fault-injection point.
package vae

import (
	"context"
	"fmt"
	"net/http"
	"unsafe"

	"github.com/google/inverting-proxy/zz_verif/vs"
)

// Env is what App Engine knows about the current request.
type Env struct {
	Module     string
	User       string // signed-in end user ("" = none)
	Admin      bool
	OAuthUser  string // OAuth identity ("" = none)
	OAuthAdmin bool
	RequestID  string
}

type envKey struct{}

const (
	HModule     = "X-Vae-Module"
	HUser       = "X-Vae-User"
	HAdmin      = "X-Vae-Admin"
	HOAuth      = "X-Vae-Oauth"
	HOAuthAdmin = "X-Vae-Oauth-Admin"
	HRequestID  = "X-Vae-Request-Id"
)

var reqSeq int

// NewContext mirrors appengine.NewContext.
func NewContext(r *http.Request) context.Context {
	e := &Env{Module: r.Header.Get(HModule), User: r.Header.Get(HUser), Admin: r.Header.Get(HAdmin) == "1",
		OAuthUser: r.Header.Get(HOAuth), OAuthAdmin: r.Header.Get(HOAuthAdmin) == "1", RequestID: r.Header.Get(HRequestID)}
	if e.Module == "" {
		e.Module = "default"
	}
	if e.RequestID == "" {
		W().reqSeq++
		e.RequestID = fmt.Sprintf("req-%04d", W().reqSeq)
	}
	// the front end strips these before the application sees the request
	for _, h := range []string{HModule, HUser, HAdmin, HOAuth, HOAuthAdmin, HRequestID} {
		r.Header.Del(h)
	}
	return context.WithValue(r.Context(), envKey{}, e)
}

// EnvOf returns the request environment of ctx.
func EnvOf(ctx context.Context) *Env {
	e, _ := ctx.Value(envKey{}).(*Env)
	if e == nil {
		return &Env{Module: "default"}
	}
	return e
}

func ModuleName(ctx context.Context) string { return EnvOf(ctx).Module }
func RequestID(ctx context.Context) string  { return EnvOf(ctx).RequestID }
func Main()                                 {}
func IsDevAppServer() bool                  { return false }
func AppID(ctx context.Context) string      { return "verif-app" }

// Entity is a stored datastore entity: a deep copy of the fields that were put.
type Entity struct {
	Kind, ID string
	Fields   map[string]interface{}
	Size     int
}

// Op is one recorded service call.
type Op struct {
	Service string // "ds" or "mc"
	Op      string // Put, Get, GetMulti, Delete, DeleteMulti, Query, Set, Get
	Kind    string
	Keys    []string
	Err     string
}

// World is the per-execution state of the services.
type World struct {
	owner    *vs.Sched
	Kinds    map[string]map[string]*Entity
	Memcache map[string][]byte
	Ops      []Op
	// Fault, if set, may fail a call before it takes effect.
	Fault  func(op Op) error
	reqSeq int
	gen    int
}

var world *World

// W returns the current world.
func W() *World {
	if world == nil || world.owner != vs.S {
		Reset()
	}
	return world
}

// Reset starts an empty world.
func Reset() *World {
	world = &World{owner: vs.S, Kinds: map[string]map[string]*Entity{}, Memcache: map[string][]byte{}}
	return world
}

// Call is invoked by every service operation: scheduling point, recording, fault injection.
func (w *World) Call(op Op) error {
	if vs.Active() && !vs.Aborting() {
		vs.Point(op.Service+"."+op.Op+" "+op.Kind, unsafe.Pointer(w))
	}
	var err error
	if w.Fault != nil {
		err = w.Fault(op)
	}
	if err != nil {
		op.Err = err.Error()
	}
	w.Ops = append(w.Ops, op)
	return err
}

// Dump renders the datastore canonically (for state comparison).
func (w *World) Dump() string {
	var kinds []string
	for k := range w.Kinds {
		kinds = append(kinds, k)
	}
	sortStrings(kinds)
	s := ""
	for _, k := range kinds {
		var ids []string
		for id := range w.Kinds[k] {
			ids = append(ids, id)
		}
		sortStrings(ids)
		for _, id := range ids {
			s += fmt.Sprintf("%s/%s;", k, id)
		}
	}
	return s
}

func sortStrings(a []string) {
	for i := range a {
		for j := i + 1; j < len(a); j++ {
			if a[j] < a[i] {
				a[i], a[j] = a[j], a[i]
			}
		}
	}
}

// MultiError mirrors appengine.MultiError.
type MultiError []error

func (m MultiError) Error() string {
	n := 0
	var first error
	for _, e := range m {
		if e != nil {
			if n == 0 {
				first = e
			}
			n++
		}
	}
	if n == 0 {
		return "(0 errors)"
	}
	return fmt.Sprintf("%v (and %d other errors)", first, n-1)
}
