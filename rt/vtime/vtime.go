// Package vtime mirrors the clock-dependent parts of package time on the
// scheduler's virtual clock. Time passes only when no thread is enabled.
package vtime

import (
	"fmt"
	"time"
	"unsafe"

	"github.com/google/inverting-proxy/zz_verif/vs"
)

func Now() time.Time {
	if s := vs.S; s != nil {
		return vs.Epoch.Add(s.Now())
	}
	return time.Now()
}

func Since(t time.Time) time.Duration { return Now().Sub(t) }
func Until(t time.Time) time.Duration { return t.Sub(Now()) }

func Sleep(d time.Duration) {
	s := vs.S
	if s == nil {
		time.Sleep(d)
		return
	}
	if vs.Aborting() {
		return
	}
	if d <= 0 {
		return
	}
	woken := false
	s.AddTimer(d, fmt.Sprintf("sleep(%v)", d), func() { woken = true })
	vs.Wait(fmt.Sprintf("Sleep(%v)", d), nil, func() bool { return woken })
}

func After(d time.Duration) <-chan time.Time {
	s := vs.S
	if s == nil {
		return time.After(d)
	}
	ch := make(chan time.Time, 1)
	if vs.Aborting() {
		return ch
	}
	s.AddTimer(d, fmt.Sprintf("after(%v)", d), func() {
		select {
		case ch <- vs.Epoch.Add(s.Now()):
		default:
		}
	})
	return ch
}

func Tick(d time.Duration) <-chan time.Time {
	if d <= 0 {
		return nil
	}
	return NewTicker(d).C
}

// Ticker mirrors time.Ticker.
type Ticker struct {
	C       <-chan time.Time
	c       chan time.Time
	d       time.Duration
	cancel  func() bool
	stopped bool
	n       *time.Ticker
}

func NewTicker(d time.Duration) *Ticker {
	if d <= 0 {
		panic("non-positive interval for NewTicker")
	}
	s := vs.S
	if s == nil {
		n := time.NewTicker(d)
		return &Ticker{C: n.C, n: n}
	}
	t := &Ticker{c: make(chan time.Time, 1), d: d}
	t.C = t.c
	if !vs.Aborting() {
		t.arm(s)
	}
	return t
}

func (t *Ticker) arm(s *vs.Sched) {
	t.cancel = s.AddTimer(t.d, fmt.Sprintf("tick(%v)", t.d), func() {
		if t.stopped {
			return
		}
		select {
		case t.c <- vs.Epoch.Add(s.Now()):
		default:
		}
		t.arm(s)
	})
}

func (t *Ticker) Stop() {
	if t.n != nil {
		t.n.Stop()
		return
	}
	t.stopped = true
	if t.cancel != nil {
		t.cancel()
	}
}

func (t *Ticker) Reset(d time.Duration) {
	if t.n != nil {
		t.n.Reset(d)
		return
	}
	if t.cancel != nil {
		t.cancel()
	}
	t.d = d
	t.stopped = false
	if s := vs.S; s != nil && !vs.Aborting() {
		t.arm(s)
	}
}

// Timer mirrors time.Timer.
type Timer struct {
	C      <-chan time.Time
	c      chan time.Time
	f      func()
	cancel func() bool
	n      *time.Timer
}

func NewTimer(d time.Duration) *Timer {
	s := vs.S
	if s == nil {
		n := time.NewTimer(d)
		return &Timer{C: n.C, n: n}
	}
	t := &Timer{c: make(chan time.Time, 1)}
	t.C = t.c
	t.arm(s, d)
	return t
}

var afSeq int

func AfterFunc(d time.Duration, f func()) *Timer {
	s := vs.S
	if s == nil {
		return &Timer{n: time.AfterFunc(d, f)}
	}
	t := &Timer{f: f}
	t.arm(s, d)
	return t
}

func (t *Timer) arm(s *vs.Sched, d time.Duration) {
	if vs.Aborting() {
		return
	}
	t.cancel = s.AddTimer(d, fmt.Sprintf("timer(%v)", d), func() {
		if t.f != nil {
			afSeq++
			s.SpawnAt(fmt.Sprintf("afterfunc%d", afSeq), t.f)
			return
		}
		select {
		case t.c <- vs.Epoch.Add(s.Now()):
		default:
		}
	})
}

func (t *Timer) Stop() bool {
	if t.n != nil {
		return t.n.Stop()
	}
	if t.cancel == nil {
		return false
	}
	return t.cancel()
}

func (t *Timer) Reset(d time.Duration) bool {
	if t.n != nil {
		return t.n.Reset(d)
	}
	was := t.Stop()
	if s := vs.S; s != nil {
		t.arm(s, d)
	}
	return was
}

var _ = unsafe.Pointer(nil)
