// Package vctx mirrors the context constructors whose behaviour involves
// cancellation or timers, so that cancellation is a visible release event and
// deadlines run on the virtual clock.
package vctx

import (
	"context"
	"time"
	"unsafe"

	"github.com/google/inverting-proxy/zz_verif/vs"
	"github.com/google/inverting-proxy/zz_verif/vtime"
)

var (
	owner    *vs.Sched
	children map[unsafe.Pointer][]unsafe.Pointer
)

func donePtr(ctx context.Context) unsafe.Pointer {
	d := ctx.Done()
	return *(*unsafe.Pointer)(unsafe.Pointer(&d))
}

func register(parent, child context.Context) {
	if vs.S != owner {
		owner = vs.S
		children = map[unsafe.Pointer][]unsafe.Pointer{}
	}
	pp, cp := donePtr(parent), donePtr(child)
	vs.Keep(cp, child)
	if pp != nil {
		children[pp] = append(children[pp], cp)
	}
}

func release(p unsafe.Pointer, depth int) {
	vs.Event("cancel", p, false, true)
	if depth > 16 {
		return
	}
	for _, c := range children[p] {
		release(c, depth+1)
	}
}

func WithCancel(parent context.Context) (context.Context, context.CancelFunc) {
	ctx, cancel := context.WithCancel(parent)
	if !vs.Active() {
		return ctx, cancel
	}
	register(parent, ctx)
	p := donePtr(ctx)
	return ctx, func() {
		if vs.Active() && vs.S == owner && ctx.Err() == nil && !vs.Aborting() {
			vs.Point("cancel", p)
			release(p, 0)
		}
		cancel()
	}
}

type deadlineCtx struct {
	context.Context
	deadline time.Time
	timedOut *bool
}

func (d *deadlineCtx) Deadline() (time.Time, bool) { return d.deadline, true }
func (d *deadlineCtx) Err() error {
	if *d.timedOut {
		return context.DeadlineExceeded
	}
	return d.Context.Err()
}

func WithDeadline(parent context.Context, t time.Time) (context.Context, context.CancelFunc) {
	if !vs.Active() {
		return context.WithDeadline(parent, t)
	}
	return WithTimeout(parent, vtime.Until(t))
}

func WithTimeout(parent context.Context, d time.Duration) (context.Context, context.CancelFunc) {
	if !vs.Active() {
		return context.WithTimeout(parent, d)
	}
	inner, cancel := context.WithCancel(parent)
	register(parent, inner)
	p := donePtr(inner)
	timedOut := new(bool)
	ctx := &deadlineCtx{Context: inner, deadline: vtime.Now().Add(d), timedOut: timedOut}
	var stop func() bool
	if !vs.Aborting() {
		stop = vs.S.AddTimer(d, "ctx-timeout", func() {
			if inner.Err() == nil {
				*timedOut = true
				cancel()
			}
		})
	}
	return ctx, func() {
		if stop != nil {
			stop()
		}
		if vs.Active() && vs.S == owner && inner.Err() == nil && !vs.Aborting() {
			vs.Point("cancel", p)
			release(p, 0)
		}
		cancel()
	}
}
