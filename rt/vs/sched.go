// Package vs is a cooperative scheduler over real goroutines.
//
// Every controlled thread is a real goroutine that runs only while it holds the
// single run token. Before each visible (blocking / acquiring) operation the
// thread publishes the operation and parks; the scheduler computes the enabled
// set from its own bookkeeping and resumes exactly one thread. All
// nondeterminism (which thread, which ready select case, which rendezvous
// partner, which timer, which environment answer) is resolved by a choice
// sequence that the explorer (package vx) enumerates.
//
// When no scheduler is installed (S == nil) every operation maps 1:1 to the
// native Go operation ("pass-through mode").
package vs

import (
	"fmt"
	"os"
	"runtime"
	"sort"
	"strings"
	"time"
	"unsafe"
)

type opKind uint8

const (
	opStart opKind = iota
	opYield
	opWait
	opChan
	opDone
)

// ChoiceKind classifies a recorded choice point.
type ChoiceKind uint8

const (
	ChSched  ChoiceKind = iota // which thread runs next
	ChSelect                   // which ready select case / rendezvous partner
	ChTimer                    // which of several equal-deadline timers fires first
	ChEnv                      // free environment answer
	ChDev                      // environment deviation (alt>0 costs one deviation)
)

// Choice is one recorded choice point of an execution.
type Choice struct {
	N       int // number of alternatives
	Pick    int // alternative taken
	Kind    ChoiceKind
	Preempt bool   // ChSched only: alt 0 is the still-enabled running thread, so alt>0 is a preemption
	Tag     string // human readable
	Mem     bool   // ChSched only: the running thread stands at a plain-memory access point (MemPoints)
}

// Thread is one controlled goroutine.
type Thread struct {
	id          int
	Name        string
	nameHash    uint64
	grant       chan struct{}
	kind        opKind
	desc        string
	obj         unsafe.Pointer
	cond        func() bool
	idle        bool // enabled only when no other thread is
	cases       []*Case
	hasDef      bool
	resIdx      int
	partnerDone bool
	done        bool
	exiting     bool
	Daemon      bool
	spawned     int
	clock       []uint32
	last        uint64
	nev         int
	// Local is scratch space for fakes that need per-thread data.
	Local    map[string]interface{}
	memPoint bool
	memAfter string
	memSeq   string // site of the directly preceding announcements (same statement)
}

func (t *Thread) String() string { return t.Name }

type timer struct {
	at   time.Duration
	seq  int
	fire func()
	dead bool
	tag  string
}

type objInfo struct {
	last  uint64
	vc    []uint32
	wT    int    // last writer thread id (-1 none)
	wC    uint32 // its clock at the write
	reads []uint32
	ref   interface{}
	name  string
	seq   int
}

// Blocked describes a thread that was not finished when the execution ended.
type Blocked struct {
	Thread string
	Op     string
	Daemon bool
}

// Race is an unordered conflicting pair of declared accesses.
type Race struct {
	Object string
	A, B   string
}

// Result is what one execution produced at the scheduler level.
type Result struct {
	Choices  []Choice
	Steps    int
	Keys     []uint64 // state key after each choice-bearing step (parallel to scheduling choices)
	KeyAt    []int    // index into Choices at which the key was taken
	Pruned   bool
	Horizon  bool
	Exited   bool
	ExitCode int
	ExitAt   time.Duration
	Panics   []string
	Blocked  []Blocked
	Races    []Race
	MemRaces []MemRace
	Now      time.Duration
	Diverged string // non-empty: replay prefix did not fit (internal nondeterminism)
	TraceLog []string
}

// Sched is one execution's scheduler.
type Sched struct {
	threads  []*Thread
	cur      *Thread
	back     chan struct{}
	prefix   []int
	res      Result
	abort    bool
	closed   map[unsafe.Pointer]bool
	objs     map[unsafe.Pointer]*objInfo
	timers   []*timer
	timerSeq int
	now      time.Duration

	// MaxSteps bounds the number of scheduler steps (horizon).
	MaxSteps int
	// MaxTime bounds virtual time: timers beyond it never fire.
	MaxTime time.Duration
	// Visited, if set, is called after every step beyond the replayed prefix with
	// the number of choices made so far and the current state key; returning true
	// cuts the execution off (state already explored with no more cost).
	Visited func(nChoices int, key uint64) bool
	// Trace enables a human readable step log in Result.TraceLog.
	Trace bool
	// NoPost switches the scheduling points after release operations off for this execution.
	NoPost bool
	// MemPoints: source sites whose plain-memory accesses are scheduling points.
	MemPoints  map[string]bool
	mem        map[uintptr]*wordInfo
	memKeep    []any
	memDbg     string
	memSites   []string
	memSiteIdx map[string]uint16
	// stop conditions
	exit bool
}

// S is the installed scheduler; nil means pass-through mode.
var S *Sched

// Epoch is the wall-clock instant that corresponds to virtual time zero.
var Epoch = time.Date(2024, 1, 1, 0, 0, 0, 0, time.UTC)

// New installs a fresh scheduler that replays prefix and then takes choice 0.
func New(prefix []int) *Sched {
	s := &Sched{
		back:     make(chan struct{}),
		prefix:   prefix,
		closed:   map[unsafe.Pointer]bool{},
		objs:     map[unsafe.Pointer]*objInfo{},
		MaxSteps: 20000,
		MaxTime:  24 * time.Hour,
	}
	S = s
	return s
}

// Active reports whether a controlled execution is in progress.
func Active() bool { return S != nil }

type goexitT struct{}

func (s *Sched) spawn(name string, daemon bool, parent *Thread, f func()) *Thread {
	t := &Thread{id: len(s.threads), Name: name, grant: make(chan struct{}), kind: opStart, Daemon: daemon, desc: "start"}
	t.nameHash = hashString(name)
	t.clock = make([]uint32, t.id+1)
	if parent != nil {
		copy(t.clock, parent.clock)
		parent.tick()
		t.last = parent.last
	}
	t.clock[t.id] = 1
	s.threads = append(s.threads, t)
	go func() {
		<-t.grant
		defer func() {
			if r := recover(); r != nil {
				if !s.abort {
					buf := make([]byte, 4096)
					n := runtime.Stack(buf, false)
					s.res.Panics = append(s.res.Panics, fmt.Sprintf("%s: %v\n%s", t.Name, r, trimStack(string(buf[:n]))))
				}
			}
			t.done = true
			t.kind = opDone
			t.desc = "done"
			s.back <- struct{}{}
		}()
		if s.abort {
			return
		}
		f()
	}()
	return t
}

func trimStack(st string) string {
	// Keep function names and file:line only: goroutine numbers, argument
	// values and pc offsets differ from run to run.
	lines := strings.Split(st, "\n")
	var out []string
	for _, l := range lines {
		if strings.Contains(l, "/zz_verif/vs/") || strings.Contains(l, "/zz_verif/vs.") || strings.Contains(l, "runtime/panic.go") || strings.Contains(l, "runtime/debug") ||
			strings.HasPrefix(l, "goroutine ") || strings.HasPrefix(l, "panic(") || strings.HasPrefix(l, "created by ") || strings.TrimSpace(l) == "" {
			continue
		}
		if strings.HasPrefix(l, "\t") {
			if i := strings.LastIndex(l, " +0x"); i >= 0 {
				l = l[:i]
			}
			if strings.Contains(l, "/usr/lib/go") || strings.Contains(l, "/runtime/") {
				continue
			}
		} else if i := strings.LastIndex(l, "("); i >= 0 {
			l = l[:i]
			if strings.HasPrefix(l, "runtime.") {
				continue
			}
		}
		out = append(out, l)
		if len(out) > 16 {
			break
		}
	}
	return strings.Join(out, "\n")
}

// Thread adds a root (harness) thread.
func (s *Sched) Thread(name string, f func()) *Thread { return s.spawn(name, false, nil, f) }

// DaemonThread adds a root thread that is allowed to be blocked at the end.
func (s *Sched) DaemonThread(name string, f func()) *Thread { return s.spawn(name, true, nil, f) }

// Go starts f as a controlled thread (or a native goroutine in pass-through mode).
func Go(f func()) { GoAt("", f) }

// GoAt is Go with a source position used in the thread name.
func GoAt(site string, f func()) {
	s := S
	if s == nil {
		go f()
		return
	}
	if s.abort {
		return
	}
	p := s.cur
	p.spawned++
	name := fmt.Sprintf("%s/%d", p.Name, p.spawned)
	if site != "" {
		name += "@" + site
	}
	s.spawn(name, p.Daemon, p, f)
}

// Cur returns the running thread (nil in pass-through mode).
func Cur() *Thread {
	if S == nil {
		return nil
	}
	return S.cur
}

// Now returns the virtual time since Epoch.
func (s *Sched) Now() time.Duration { return s.now }

// park publishes the op already set on t and waits to be resumed.
func (t *Thread) park() {
	s := S
	if s.abort {
		t.bail()
		return
	}
	t.memSeq = ""
	s.back <- struct{}{}
	<-t.grant
	if s.abort {
		t.bail()
	}
}

// bail terminates the calling thread during abort. Deferred functions of the
// code under test still run; operations they perform return immediately.
func (t *Thread) bail() {
	if t.exiting {
		return
	}
	t.exiting = true
	runtime.Goexit()
}

func (s *Sched) aborting() bool { return s.abort }

// Wait parks the current thread until cond() holds, then resumes it as one step.
// cond is evaluated by the scheduler while every thread is parked.
func Wait(desc string, obj unsafe.Pointer, cond func() bool) {
	s := S
	t := s.cur
	if s.abort {
		t.park()
		return
	}
	t.kind, t.desc, t.obj, t.cond, t.cases = opWait, desc, obj, cond, nil
	if obj != nil {
		s.obj(obj)
	}
	t.park()
}

// Point is an always-enabled scheduling point that touches obj.
func Point(desc string, obj unsafe.Pointer) {
	s := S
	t := s.cur
	if s.abort {
		t.park()
		return
	}
	t.kind, t.desc, t.obj, t.cond, t.cases = opYield, desc, obj, nil, nil
	if obj != nil {
		s.obj(obj)
	}
	t.park()
}

// Event records an operation on obj by the current thread without a scheduling
// point (release operations: they commute to the left of everything else).
// acq / rel say which happens-before edges the operation creates.
func Event(desc string, obj unsafe.Pointer, acq, rel bool) {
	s := S
	if s == nil || s.abort {
		return
	}
	s.event(s.cur, hashString(desc), obj, acq, rel)
}

// PostPoints switches the scheduling points after release operations on.
var PostPoints = os.Getenv("VS_POST") != "0"

// After is a scheduling point placed right after a release operation (close, unlock, send, Done): it
// lets the threads the release has enabled run before the releasing thread's next plain-memory
// write. An operation moved across a release ("close the pipe, then fill in the trailers") is a data
// race whose other side may be library code that announces nothing; this point exposes it to the
// property's oracle at the cost of one preemption.
func After(desc string, obj unsafe.Pointer) {
	s := S
	if s == nil || s.abort || !PostPoints || s.NoPost || s.cur == nil {
		return
	}
	Point(desc, obj)
}

// MemYield is a scheduling point that the plain-memory pass explores like one of its own. It stands
// behind the release of a lock inside library code that only a plain-memory race can make contended.
func MemYield(desc string, obj unsafe.Pointer) {
	s := S
	if s == nil || s.abort || s.cur == nil {
		return
	}
	t := s.cur
	t.memPoint = true
	Point(desc, obj)
	t.memPoint = false
}

// Exit ends the execution as a process exit with the given code.
func Exit(code int) {
	s := S
	if s == nil {
		panic(fmt.Sprintf("vs.Exit(%d) in pass-through mode", code))
	}
	if s.abort {
		s.cur.park()
		return
	}
	s.res.Exited = true
	s.res.ExitCode = code
	s.res.ExitAt = s.now
	s.exit = true
	s.cur.kind, s.cur.desc, s.cur.cond = opWait, "exited", func() bool { return false }
	s.cur.park()
}

// Choose asks the explorer for a free environment answer in [0,n).
func Choose(n int, tag string) int {
	s := S
	if s == nil || s.abort || n <= 1 {
		return 0
	}
	c := s.choose(n, ChEnv, false, tag)
	s.event(s.cur, mix(hashString(tag), uint64(c)), nil, false, false)
	return c
}

// Deviate asks the explorer for an environment deviation in [0,n): answer 0 is
// the default, any other answer costs one deviation.
func Deviate(n int, tag string) int {
	s := S
	if s == nil || s.abort || n <= 1 {
		return 0
	}
	c := s.choose(n, ChDev, false, tag)
	s.event(s.cur, mix(hashString(tag), uint64(c)), nil, false, false)
	return c
}

func (s *Sched) choose(n int, kind ChoiceKind, preempt bool, tag string) int {
	i := len(s.res.Choices)
	c := 0
	if i < len(s.prefix) {
		c = s.prefix[i]
		if c >= n || c < 0 {
			if s.res.Diverged == "" {
				s.res.Diverged = fmt.Sprintf("choice %d: prefix wants alternative %d but only %d exist (%s)", i, c, n, tag)
			}
			c = 0
		}
	}
	s.res.Choices = append(s.res.Choices, Choice{N: n, Pick: c, Kind: kind, Preempt: preempt, Tag: tag})
	return c
}

func (s *Sched) enabled(t *Thread) bool {
	if t.done {
		return false
	}
	if t.partnerDone {
		return true
	}
	switch t.kind {
	case opStart, opYield:
		return true
	case opWait:
		return t.cond()
	case opChan:
		if t.hasDef {
			return true
		}
		return s.anyReady(t)
	}
	return false
}

// Run executes until quiescence (no enabled thread, no timer that may fire),
// an Exit, a panic, a horizon, or a cut-off by Visited.
func (s *Sched) Run() *Result {
	defer func() { S = nil }()
	for {
		if s.res.Steps >= s.MaxSteps {
			s.res.Horizon = true
			break
		}
		var en []*Thread
		curEnabled := false
		for _, t := range s.threads {
			if t.idle && !t.done {
				continue
			}
			if s.enabled(t) {
				if t == s.cur {
					curEnabled = true
				} else {
					en = append(en, t)
				}
			}
		}
		if curEnabled {
			en = append([]*Thread{s.cur}, en...)
		}
		if len(en) == 0 {
			// threads waiting for quiescence run before time passes
			for _, t := range s.threads {
				if t.idle && !t.done {
					en = append(en, t)
				}
			}
		}
		if len(en) == 0 {
			if s.fireTimer() {
				continue
			}
			break
		}
		t := en[0]
		if len(en) > 1 {
			tag := ""
			if s.Trace {
				var names []string
				for _, e := range en {
					names = append(names, e.Name+":"+e.desc)
				}
				tag = strings.Join(names, " | ")
			}
			t = en[s.choose(len(en), ChSched, curEnabled, tag)]
			if curEnabled && s.cur.memPoint {
				s.res.Choices[len(s.res.Choices)-1].Mem = true
			}
		}
		s.cur = t
		s.res.Steps++
		if s.Trace {
			s.res.TraceLog = append(s.res.TraceLog, fmt.Sprintf("%4d t=%v %s: %s", s.res.Steps, s.now, t.Name, t.describe()))
		}
		s.fire(t)
		if s.Visited != nil && len(s.res.Choices) >= len(s.prefix) {
			if s.Visited(len(s.res.Choices), s.stateKey()) {
				s.res.Pruned = true
				break
			}
		}
		t.grant <- struct{}{}
		<-s.back
		if len(s.res.Panics) > 0 || s.exit {
			break
		}
	}
	s.res.Now = s.now
	for _, t := range s.threads {
		if !t.done && !(s.exit && t == s.cur) {
			s.res.Blocked = append(s.res.Blocked, Blocked{Thread: t.Name, Op: t.describe(), Daemon: t.Daemon})
		}
	}
	// abort everything still parked
	s.abort = true
	for _, t := range s.threads {
		for !t.done {
			t.grant <- struct{}{}
			<-s.back
		}
	}
	// threads spawned during abort
	for i := 0; i < len(s.threads); i++ {
		t := s.threads[i]
		for !t.done {
			t.grant <- struct{}{}
			<-s.back
		}
	}
	return &s.res
}

func (t *Thread) describe() string {
	if t.kind == opChan {
		var parts []string
		for _, c := range t.cases {
			d := "recv"
			if c.send {
				d = "send"
			}
			parts = append(parts, fmt.Sprintf("%s(%s)", d, S.objName(c.ptr)))
		}
		if t.hasDef {
			parts = append(parts, "default")
		}
		return "chan{" + strings.Join(parts, ",") + "}"
	}
	return t.desc
}

func (s *Sched) objName(p unsafe.Pointer) string {
	if p == nil {
		return "nil"
	}
	o := s.objs[p]
	if o == nil {
		return "obj?"
	}
	if o.name != "" {
		return o.name
	}
	return fmt.Sprintf("obj#%d", o.seq)
}

// NameObject attaches a stable diagnostic name to an object.
func NameObject(p unsafe.Pointer, name string) {
	if S == nil {
		return
	}
	S.obj(p).name = name
}

// fire performs the state change of t's pending op before resuming it.
func (s *Sched) fire(t *Thread) {
	if t.partnerDone {
		t.partnerDone = false
		t.kind = opYield
		s.event(t, 7, nil, false, false)
		return
	}
	switch t.kind {
	case opStart:
		s.event(t, 8, nil, false, false)
	case opYield:
		s.event(t, mix(9, hashString(t.desc)), t.obj, true, true)
	case opWait:
		s.event(t, mix(10, hashString(t.desc)), t.obj, true, false)
	case opChan:
		s.fireChan(t)
	}
}

// ---- timers ----

// AddTimer registers fire to run (in scheduler context, must not block) when the
// virtual clock reaches now+d. It returns a cancel function.
func (s *Sched) AddTimer(d time.Duration, tag string, fire func()) func() bool {
	if d < 0 {
		d = 0
	}
	s.timerSeq++
	tm := &timer{at: s.now + d, seq: s.timerSeq, fire: fire, tag: tag}
	s.timers = append(s.timers, tm)
	return func() bool {
		if tm.dead {
			return false
		}
		tm.dead = true
		return true
	}
}

// fireTimer advances the clock to the earliest pending timer and fires it.
func (s *Sched) fireTimer() bool {
	live := s.timers[:0]
	for _, tm := range s.timers {
		if !tm.dead {
			live = append(live, tm)
		}
	}
	s.timers = live
	if len(live) == 0 {
		return false
	}
	sort.SliceStable(live, func(i, j int) bool {
		if live[i].at != live[j].at {
			return live[i].at < live[j].at
		}
		return live[i].seq < live[j].seq
	})
	if live[0].at > s.MaxTime {
		return false
	}
	n := 1
	for n < len(live) && live[n].at == live[0].at {
		n++
	}
	k := 0
	if n > 1 {
		k = s.choose(n, ChTimer, false, "timer")
	}
	tm := live[k]
	tm.dead = true
	if tm.at > s.now {
		s.now = tm.at
	}
	s.res.Steps++
	if s.Trace {
		s.res.TraceLog = append(s.res.TraceLog, fmt.Sprintf("%4d t=%v timer %s", s.res.Steps, s.now, tm.tag))
	}
	tm.fire()
	return true
}

// ---- happens-before bookkeeping ----

func (s *Sched) obj(p unsafe.Pointer) *objInfo {
	o := s.objs[p]
	if o == nil {
		o = &objInfo{wT: -1, seq: len(s.objs) + 1}
		s.objs[p] = o
	}
	return o
}

// Keep prevents the object behind p from being collected (and its address
// reused) during this execution.
func Keep(p unsafe.Pointer, ref interface{}) {
	if S != nil {
		S.obj(p).ref = ref
	}
}

func (t *Thread) tick() { t.clock[t.id]++ }

func join(dst *[]uint32, src []uint32) {
	if len(*dst) < len(src) {
		n := make([]uint32, len(src))
		copy(n, *dst)
		*dst = n
	}
	d := *dst
	for i, v := range src {
		if v > d[i] {
			d[i] = v
		}
	}
}

// event records an event by t with descriptor d on obj.
func (s *Sched) event(t *Thread, d uint64, p unsafe.Pointer, acq, rel bool) {
	h := mix(t.nameHash, uint64(t.nev))
	h = mix(h, t.last)
	h = mix(h, d)
	if p != nil {
		o := s.obj(p)
		h = mix(h, o.last)
		o.last = h
		if acq {
			join(&t.clock, o.vc)
		}
		if rel {
			join(&o.vc, t.clock)
			t.tick()
		}
	}
	t.nev++
	t.last = h
}

func (s *Sched) stateKey() uint64 {
	k := mix(1, uint64(s.now))
	for _, t := range s.threads {
		k = mix(k, t.last)
	}
	if s.cur != nil {
		k = mix(k, s.cur.nameHash)
	}
	return k
}

// Access declares a read or write of a non-thread-safe object by the current
// thread. Two conflicting accesses not ordered by happens-before are a race.
func Access(p unsafe.Pointer, name string, write bool) {
	s := S
	if s == nil || s.abort || p == nil {
		return
	}
	t := s.cur
	o := s.obj(p)
	if o.name == "" {
		o.name = name
	}
	// ordered after last write?
	if o.wT >= 0 && o.wT != t.id {
		if o.wT >= len(t.clock) || t.clock[o.wT] < o.wC {
			s.race(o, s.threads[o.wT], t)
		}
	}
	if write {
		for i, rc := range o.reads {
			if i != t.id && rc > 0 && (i >= len(t.clock) || t.clock[i] < rc) {
				s.race(o, s.threads[i], t)
			}
		}
		o.wT, o.wC = t.id, t.clock[t.id]
		o.reads = o.reads[:0]
	} else {
		if len(o.reads) <= t.id {
			n := make([]uint32, t.id+1)
			copy(n, o.reads)
			o.reads = n
		}
		o.reads[t.id] = t.clock[t.id]
	}
	// accesses are events: their order is part of the state
	d := uint64(11)
	if write {
		d = 12
	}
	h := mix(t.nameHash, uint64(t.nev))
	h = mix(h, t.last)
	h = mix(h, d)
	h = mix(h, o.last)
	o.last = h
	t.nev++
	t.last = h
}

func (s *Sched) race(o *objInfo, a, b *Thread) {
	for _, r := range s.res.Races {
		if r.Object == o.name && r.A == a.Name && r.B == b.Name {
			return
		}
	}
	s.res.Races = append(s.res.Races, Race{Object: o.name, A: a.Name, B: b.Name})
}

func mix(h uint64, v uint64) uint64 {
	h ^= v + 0x9e3779b97f4a7c15 + (h << 6) + (h >> 2)
	h *= 0xff51afd7ed558ccd
	h ^= h >> 33
	return h
}

func hashString(s string) uint64 {
	var h uint64 = 14695981039346656037
	for i := 0; i < len(s); i++ {
		h ^= uint64(s[i])
		h *= 1099511628211
	}
	return h
}

// Mix exposes the hash combiner for fakes that contribute to the state key.
func Mix(h, v uint64) uint64 { return mix(h, v) }

// HashString exposes the string hash.
func HashString(s string) uint64 { return hashString(s) }

// SpawnAt starts a controlled thread from scheduler context (timer callbacks).
func (s *Sched) SpawnAt(name string, f func()) {
	s.spawn(name, true, nil, f)
}

// Aborting reports whether the execution is being torn down.
func Aborting() bool { return S != nil && S.abort }

// ChoicesSoFar returns the choices recorded so far in this execution.
func (s *Sched) ChoicesSoFar() []Choice { return s.res.Choices }

// Touch records an access to a harness-side shared object: it orders the
// touching threads (happens-before) and makes the order part of the state key.
func Touch(p unsafe.Pointer) {
	if S == nil || S.abort {
		return
	}
	S.event(S.cur, 13, p, true, true)
}

// AccessV declares an access to the pointer-shaped object obj and returns it.
func AccessV[T any](obj T, name string, write bool) T {
	if S != nil && !S.abort {
		Access(*(*unsafe.Pointer)(unsafe.Pointer(&obj)), name, write)
	}
	return obj
}

// Zero resets *p to its zero value.
func Zero[T any](p *T) {
	var z T
	*p = z
}

// Quiesce parks the current thread until no other thread can run (timers do
// not count: time does not pass while a thread waits for quiescence).
func Quiesce() {
	s := S
	if s == nil {
		return
	}
	t := s.cur
	if s.abort {
		t.park()
		return
	}
	t.kind, t.desc, t.obj, t.cond, t.cases = opYield, "quiesce", nil, nil, nil
	t.idle = true
	t.park()
	t.idle = false
}
