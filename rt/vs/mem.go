package vs

import (
	"os"
	"reflect"
	"sort"
	"unsafe"
)

// Plain-memory accesses.
//
// The rewriter announces every read and write of memory that more than one
// goroutine can reach (package-level variables, variables captured by function
// literals, anything reached through a pointer, slice element or map) with a
// call to Mem placed just before the statement that performs it. Mem keeps
// FastTrack-style vector-clock state per 8-byte word and records every pair of
// conflicting accesses that no happens-before edge orders: a data race.
//
// A data race is not reported as a property violation. It is evidence that the
// scheduling points at synchronisation operations are not sufficient for this
// code: the two source sites are returned to the explorer, which explores the
// scenario again with a scheduling point in front of every access at those
// sites (MemPoints), so that the property's own oracle decides whether the race
// can be observed.

// MemOn switches the bookkeeping on (the default under a scheduler).
var MemOn = os.Getenv("VS_MEM") != "0"

const memMaxWords = 24

type memInfo struct {
	wT     int
	wC     uint32
	wSite  string
	reads  []uint32
	rSites []string
	last   uint64
}

// MemRace is one unordered conflicting pair of plain-memory accesses.
type MemRace struct {
	A, B string // source sites, A <= B
}

func (s *Sched) memRace(a, b string) {
	if a > b {
		a, b = b, a
	}
	for _, r := range s.res.MemRaces {
		if r.A == a && r.B == b {
			return
		}
	}
	if len(s.res.MemRaces) < 64 {
		s.res.MemRaces = append(s.res.MemRaces, MemRace{a, b})
	}
}

// MemSites returns the distinct sites of all races, sorted.
func MemSites(rs []MemRace) []string {
	m := map[string]bool{}
	for _, r := range rs {
		m[r.A] = true
		m[r.B] = true
	}
	out := make([]string, 0, len(m))
	for k := range m {
		out = append(out, k)
	}
	sort.Strings(out)
	return out
}

// MemT is Mem for use inside a condition: it always yields true.
func MemT(site string, write bool, p func() any) bool {
	Mem(site, write, p)
	return true
}

// Mem announces an access to the memory p() points to (or, for a map, to the
// map). A panic while computing the address means the access does not happen.
func Mem(site string, write bool, p func() any) {
	s := S
	if s == nil || s.abort || !MemOn || s.cur == nil {
		return
	}
	v := memAddr(p)
	if v == nil {
		return
	}
	rv := reflect.ValueOf(v)
	var addr uintptr
	var size uintptr
	switch rv.Kind() {
	case reflect.Ptr:
		if rv.IsNil() {
			return
		}
		addr = rv.Pointer()
		size = rv.Type().Elem().Size()
	case reflect.Map:
		if rv.IsNil() {
			return
		}
		addr = rv.Pointer()
		size = 1
	case reflect.Slice:
		// the backing array of a slice handed to a call: its length when only read, its capacity when filled
		n := rv.Len()
		if write {
			n = rv.Cap()
		}
		if n == 0 {
			return
		}
		addr = rv.Pointer()
		size = uintptr(n) * rv.Type().Elem().Size()
	default:
		return
	}
	s.memAccess(site, write, addr, size, v)
}

// MemO is the allocation-free form for "base.field" with a pointer base.
func MemO(site string, write bool, base unsafe.Pointer, off, size uintptr) {
	s := S
	if s == nil || s.abort || !MemOn || s.cur == nil || base == nil {
		return
	}
	s.memAccess(site, write, uintptr(base)+off, size, base)
}

func memAddr(p func() any) (v any) {
	defer func() {
		if recover() != nil {
			v = nil
		}
	}()
	return p()
}

func (s *Sched) memAccess(site string, write bool, addr, size uintptr, keep any) {
	// a racing site is a scheduling point, and so is the first announced access of
	// the same thread at another site after it (the place "just after" the racing
	// statement)
	if s.MemPoints != nil {
		t := s.cur
		// the announcements of one statement follow each other directly: one point for all of them
		racing := s.MemPoints[site] && t.memSeq != site
		after := t.memAfter != "" && t.memAfter != site
		if racing || after {
			if after {
				t.memAfter = ""
			}
			if racing {
				t.memAfter = site
			}
			t.memPoint = true
			Point("mem "+site, nil)
			t.memPoint = false
			if s.abort {
				return
			}
		}
		t.memSeq = site
	}
	t := s.cur
	if s.mem == nil {
		s.mem = map[uintptr]*memInfo{}
	}
	if len(s.memKeep) < 1<<16 {
		s.memKeep = append(s.memKeep, keep)
	}
	if size == 0 {
		size = 1
	}
	lo := addr &^ 7
	hi := (addr + size + 7) &^ 7
	if n := (hi - lo) / 8; n > memMaxWords {
		hi = lo + memMaxWords*8
	}
	var h uint64
	for w := lo; w < hi; w += 8 {
		o := s.mem[w]
		if o == nil {
			o = &memInfo{wT: -1}
			s.mem[w] = o
		}
		if o.wT >= 0 && o.wT != t.id {
			if o.wT >= len(t.clock) || t.clock[o.wT] < o.wC {
				s.memRace(o.wSite, site)
			}
		}
		if write {
			for i, rc := range o.reads {
				if i != t.id && rc > 0 && (i >= len(t.clock) || t.clock[i] < rc) {
					s.memRace(o.rSites[i], site)
				}
			}
			o.wT, o.wC, o.wSite = t.id, t.clock[t.id], site
			for i := range o.reads {
				o.reads[i] = 0
			}
			if w == lo {
				h = mix(t.last, o.last)
				o.last = mix(h, 12)
			}
		} else {
			if len(o.reads) <= t.id {
				n := make([]uint32, t.id+1)
				copy(n, o.reads)
				o.reads = n
				ns := make([]string, t.id+1)
				copy(ns, o.rSites)
				o.rSites = ns
			}
			o.reads[t.id] = t.clock[t.id]
			o.rSites[t.id] = site
			if w == lo {
				h = mix(t.last, o.last)
			}
		}
	}
	// which write a read saw, and the order of writes, are part of the state
	t.last = mix(h, uint64(t.nev))
	t.nev++
}
