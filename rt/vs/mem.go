package vs

import (
	"fmt"
	"os"
	"reflect"
	"sort"
	"sync"
	"unsafe"
)

// Plain-memory accesses.
//
// The rewriter announces every read and write of memory that more than one
// goroutine can reach (package-level variables, variables captured by function
// literals, anything reached through a pointer, slice element or map) with a
// call to Mem placed just before the statement that performs it. Mem keeps
// FastTrack-style vector-clock state per 8-byte word and records every pair of
// conflicting accesses that no happens-before edge orders: a data race.
//
// A data race is not reported as a property violation. It is evidence that the
// scheduling points at synchronisation operations are not sufficient for this
// code: the two source sites are returned to the explorer, which explores the
// scenario again with a scheduling point in front of every access at those
// sites (MemPoints), so that the property's own oracle decides whether the race
// can be observed.

// MemOn switches the bookkeeping on (the default under a scheduler).
var MemOn = os.Getenv("VS_MEM") != "0"

const memMaxWords = 24

// memInfo is the access history of one location: the last write and, FastTrack style, the reads
// since then that are not ordered among themselves (two inline, the rest in a slice).
type memInfo struct {
	wT, r1T, r2T          int16 // thread ids, -1 = none
	wSite, r1Site, r2Site uint16
	wC, r1C, r2C          uint32
	more                  []readRec
}

type readRec struct {
	t    int16
	site uint16
	c    uint32
}

func newMemInfo() memInfo { return memInfo{wT: -1, r1T: -1, r2T: -1} }

// wordInfo is the state of one aligned 8-byte word: one record while every access covers the
// whole word, eight per-byte records from the first partial access on.
type wordInfo struct {
	whole memInfo
	split *[8]memInfo
	last  uint64
}

func (s *Sched) siteIdx(site string) uint16 {
	if i, ok := s.memSiteIdx[site]; ok {
		return i
	}
	if s.memSiteIdx == nil {
		s.memSiteIdx = map[string]uint16{}
	}
	i := uint16(len(s.memSites))
	s.memSites = append(s.memSites, site)
	s.memSiteIdx[site] = i
	return i
}

// ordered reports whether the access (thread u at its clock c) happens before t's current point.
func ordered(t *Thread, u int16, c uint32) bool {
	return int(u) == t.id || (int(u) < len(t.clock) && t.clock[u] >= c)
}

// memOne checks and records one access on one record.
func (s *Sched) memOne(o *memInfo, t *Thread, site uint16, write bool) {
	if o.wT >= 0 && !ordered(t, o.wT, o.wC) {
		s.memRace(s.memSites[o.wSite], s.memSites[site])
	}
	tid, now := int16(t.id), t.clock[t.id]
	if write {
		if o.r1T >= 0 && !ordered(t, o.r1T, o.r1C) {
			s.memRace(s.memSites[o.r1Site], s.memSites[site])
		}
		if o.r2T >= 0 && !ordered(t, o.r2T, o.r2C) {
			s.memRace(s.memSites[o.r2Site], s.memSites[site])
		}
		for _, r := range o.more {
			if !ordered(t, r.t, r.c) {
				s.memRace(s.memSites[r.site], s.memSites[site])
			}
		}
		o.wT, o.wC, o.wSite = tid, now, site
		o.r1T, o.r2T, o.more = -1, -1, o.more[:0]
		return
	}
	// a read replaces the recorded reads it is ordered after
	switch {
	case o.r1T < 0 || ordered(t, o.r1T, o.r1C):
		o.r1T, o.r1C, o.r1Site = tid, now, site
	case o.r2T < 0 || ordered(t, o.r2T, o.r2C):
		o.r2T, o.r2C, o.r2Site = tid, now, site
	default:
		for i := range o.more {
			if ordered(t, o.more[i].t, o.more[i].c) {
				o.more[i] = readRec{tid, site, now}
				return
			}
		}
		o.more = append(o.more, readRec{tid, site, now})
	}
}

// MemRace is one unordered conflicting pair of plain-memory accesses.
type MemRace struct {
	A, B string // source sites, A <= B
}

func (s *Sched) memRace(a, b string) {
	if f := os.Getenv("VS_MEMDEBUG"); f != "" {
		if fh, err := os.OpenFile(f, os.O_APPEND|os.O_CREATE|os.O_WRONLY, 0644); err == nil {
			fmt.Fprintf(fh, "MEMRACE %s | %s (thread %s) %s\n", a, b, s.cur.Name, s.memDbg)
			fh.Close()
		}
	}
	if a > b {
		a, b = b, a
	}
	for _, r := range s.res.MemRaces {
		if r.A == a && r.B == b {
			return
		}
	}
	if len(s.res.MemRaces) < 64 {
		s.res.MemRaces = append(s.res.MemRaces, MemRace{a, b})
	}
}

// MemSites returns the distinct sites of all races, sorted.
func MemSites(rs []MemRace) []string {
	m := map[string]bool{}
	for _, r := range rs {
		m[r.A] = true
		m[r.B] = true
	}
	out := make([]string, 0, len(m))
	for k := range m {
		out = append(out, k)
	}
	sort.Strings(out)
	return out
}

type memType struct {
	kind uint8 // 1 pointer, 2 map, 3 slice
	size uintptr
}

// memTypes is copy-on-write: read without a lock from whichever goroutine holds the run token.
var memTypes = map[uintptr]memType{}
var memTypesMu sync.Mutex

// MemT is Mem for use inside a condition: it always yields true.
func MemT(site string, write bool, p func() any) bool {
	Mem(site, write, p)
	return true
}

// Mem announces an access to the memory p() points to (or, for a map, to the
// map). A panic while computing the address means the access does not happen.
func Mem(site string, write bool, p func() any) {
	s := S
	if s == nil || s.abort || !MemOn || s.cur == nil {
		return
	}
	v := memAddr(p)
	if v == nil {
		return
	}
	// hot path: the type word of the interface value selects a cached (kind, element size)
	iw := (*[2]uintptr)(unsafe.Pointer(&v))
	ti, ok := memTypes[iw[0]]
	if !ok {
		rt := reflect.TypeOf(v)
		switch rt.Kind() {
		case reflect.Ptr:
			ti = memType{kind: 1, size: rt.Elem().Size()}
		case reflect.Map:
			ti = memType{kind: 2}
		case reflect.Slice:
			ti = memType{kind: 3, size: rt.Elem().Size()}
		}
		memTypesMu.Lock()
		n := make(map[uintptr]memType, len(memTypes)+1)
		for k, x := range memTypes {
			n[k] = x
		}
		n[iw[0]] = ti
		memTypes = n
		memTypesMu.Unlock()
	}
	var addr, size uintptr
	switch ti.kind {
	case 1, 2:
		// pointers and maps are pointer-shaped: the data word is the pointer itself
		addr = iw[1]
		if addr == 0 {
			return
		}
		size = ti.size
		if ti.kind == 2 {
			size = 1
		}
	case 3:
		// the backing array of a slice handed to a call: its length when only read, its capacity when filled
		rv := reflect.ValueOf(v)
		n := rv.Len()
		if write {
			n = rv.Cap()
		}
		if n == 0 {
			return
		}
		addr = rv.Pointer()
		size = uintptr(n) * ti.size
	default:
		return
	}
	s.memAccess(site, write, addr, size, v)
}

// MemO is the allocation-free form for "base.field" with a pointer base.
func MemO(site string, write bool, base unsafe.Pointer, off, size uintptr) {
	s := S
	if s == nil || s.abort || !MemOn || s.cur == nil || base == nil {
		return
	}
	s.memAccess(site, write, uintptr(base)+off, size, base)
}

func memAddr(p func() any) (v any) {
	defer func() {
		if recover() != nil {
			v = nil
		}
	}()
	return p()
}

func (s *Sched) memAccess(site string, write bool, addr, size uintptr, keep any) {
	// a racing site is a scheduling point, and so is the first announced access of
	// the same thread at another site after it (the place "just after" the racing
	// statement)
	if s.MemPoints != nil {
		t := s.cur
		// the announcements of one statement follow each other directly: one point for all of them
		racing := s.MemPoints[site] && t.memSeq != site
		after := t.memAfter != "" && t.memAfter != site
		if racing || after {
			if after {
				t.memAfter = ""
			}
			if racing {
				t.memAfter = site
			}
			t.memPoint = true
			Point("mem "+site, nil)
			t.memPoint = false
			if s.abort {
				return
			}
		}
		t.memSeq = site
	}
	t := s.cur
	if s.mem == nil {
		s.mem = map[uintptr]*wordInfo{}
	}
	if size == 0 {
		size = 1
	}
	end := addr + size
	if end-(addr&^7) > memMaxWords*8 {
		end = (addr &^ 7) + memMaxWords*8
	}
	if os.Getenv("VS_MEMDEBUG") != "" {
		s.memDbg = fmt.Sprintf("addr=%x size=%d write=%v", addr, size, write)
	}
	sidx := s.siteIdx(site)
	var h uint64
	first := true
	for w := addr &^ 7; w < end; w += 8 {
		wi := s.mem[w]
		if wi == nil {
			wi = &wordInfo{whole: newMemInfo()}
			s.mem[w] = wi
			// the object stays alive (and its address unused by anything else) for the rest of the execution
			s.memKeep = append(s.memKeep, keep)
		}
		// bytes of this word that the access covers
		from, to := uintptr(0), uintptr(8)
		if addr > w {
			from = addr - w
		}
		if end < w+8 {
			to = end - w
		}
		if from == 0 && to == 8 && wi.split == nil {
			s.memOne(&wi.whole, t, sidx, write)
		} else {
			// objects smaller than a word share words (Go packs tiny allocations): per byte
			if wi.split == nil {
				wi.split = new([8]memInfo)
				for i := range wi.split {
					wi.split[i] = wi.whole
					wi.split[i].more = append([]readRec(nil), wi.whole.more...)
				}
			}
			for i := from; i < to; i++ {
				s.memOne(&wi.split[i], t, sidx, write)
			}
		}
		if first {
			first = false
			h = mix(t.last, wi.last)
			if write {
				wi.last = mix(h, 12)
			}
		}
	}
	// which write a read saw, and the order of writes, are part of the state
	t.last = mix(h, uint64(t.nev))
	t.nev++
}
