package vs

import (
	"reflect"
	"unsafe"
)

// Case is one communication clause of a select (or a lone send / receive).
type Case struct {
	send    bool
	ptr     unsafe.Pointer // channel identity; nil for a nil channel
	capa    int
	length  func() int
	trySend func() bool           // native non-blocking send of the case's value
	tryRecv func() (got, ok bool) // native non-blocking receive into the case's slot
	val     interface{}           // send: boxed value for a rendezvous
	set     func(v interface{})   // recv: store a rendezvous value
	setZero func()
	ok      bool
	rch     reflect.Value // pass-through only
	rval    reflect.Value
}

func chanPtr[T any](ch chan T) unsafe.Pointer { return *(*unsafe.Pointer)(unsafe.Pointer(&ch)) }

func recvCase[T any](ch <-chan T, slot *T) *Case {
	c := &Case{}
	c.ptr = *(*unsafe.Pointer)(unsafe.Pointer(&ch))
	if S == nil {
		c.rch = reflect.ValueOf(ch)
		c.set = func(v interface{}) {
			if v != nil {
				*slot = v.(T)
			}
		}
		return c
	}
	if ch == nil {
		return c
	}
	c.capa = cap(ch)
	c.length = func() int { return len(ch) }
	c.tryRecv = func() (bool, bool) {
		select {
		case v, ok := <-ch:
			*slot = v
			return true, ok
		default:
			return false, false
		}
	}
	c.set = func(v interface{}) {
		if v == nil {
			var z T
			*slot = z
		} else {
			*slot = v.(T)
		}
	}
	c.setZero = func() { var z T; *slot = z }
	return c
}

func sendCase[T any](ch chan<- T, v T) *Case {
	c := &Case{send: true}
	c.ptr = *(*unsafe.Pointer)(unsafe.Pointer(&ch))
	if S == nil {
		c.rch = reflect.ValueOf(ch)
		c.rval = reflect.ValueOf(&v).Elem()
		return c
	}
	if ch == nil {
		return c
	}
	c.capa = cap(ch)
	c.length = func() int { return len(ch) }
	c.val = v
	c.trySend = func() bool {
		select {
		case ch <- v:
			return true
		default:
			return false
		}
	}
	return c
}

// ready reports whether case c of thread t can proceed now.
func (s *Sched) ready(t *Thread, c *Case) bool {
	if c.ptr == nil {
		return false
	}
	if c.send {
		if s.closed[c.ptr] {
			return true // will panic: send on closed channel
		}
		if c.capa > 0 {
			return c.length() < c.capa
		}
		return len(s.partners(t, c.ptr, false)) > 0
	}
	if c.length() > 0 || s.closed[c.ptr] {
		return true
	}
	if c.capa == 0 && len(s.partners(t, c.ptr, true)) > 0 {
		return true
	}
	// Closed behind our back (context cancellation, timers): with nothing
	// buffered a native receive succeeds only on a closed channel, and then it
	// consumes nothing.
	if got, ok := c.tryRecv(); got && !ok {
		s.closed[c.ptr] = true
		return true
	}
	return false
}

func (s *Sched) anyReady(t *Thread) bool {
	for _, c := range t.cases {
		if s.ready(t, c) {
			return true
		}
	}
	return false
}

type partner struct {
	t *Thread
	i int
}

// partners lists parked threads with a complementary op on channel p.
func (s *Sched) partners(t *Thread, p unsafe.Pointer, wantSend bool) []partner {
	var r []partner
	for _, o := range s.threads {
		if o == t || o.done || o.kind != opChan || o.partnerDone {
			continue
		}
		for i, c := range o.cases {
			if c.send == wantSend && c.ptr == p {
				r = append(r, partner{o, i})
				break
			}
		}
	}
	return r
}

func (s *Sched) fireChan(t *Thread) {
	var rc []int
	for i, c := range t.cases {
		if s.ready(t, c) {
			rc = append(rc, i)
		}
	}
	if len(rc) == 0 {
		// default branch
		t.resIdx = -1
		h := uint64(99)
		for _, c := range t.cases {
			if c.ptr != nil {
				h = mix(h, s.obj(c.ptr).last)
			}
		}
		s.event(t, h, nil, false, false)
		return
	}
	idx := rc[0]
	if len(rc) > 1 {
		idx = rc[s.choose(len(rc), ChSelect, false, "select")]
	}
	c := t.cases[idx]
	t.resIdx = idx
	if c.send {
		if s.closed[c.ptr] {
			t.resIdx = -2
			s.event(t, 98, c.ptr, true, true)
			return
		}
		if c.capa > 0 {
			if !c.trySend() {
				panic("vs: buffered send failed although enabled")
			}
			s.event(t, 100+uint64(idx), c.ptr, true, true)
			return
		}
		ps := s.partners(t, c.ptr, false)
		k := 0
		if len(ps) > 1 {
			k = s.choose(len(ps), ChSelect, false, "partner")
		}
		o, oc := ps[k].t, ps[k].t.cases[ps[k].i]
		oc.set(c.val)
		oc.ok = true
		o.resIdx = ps[k].i
		o.partnerDone = true
		s.event(t, 100+uint64(idx), c.ptr, true, true)
		s.event(o, 200+uint64(o.resIdx), c.ptr, true, true)
		s.event(t, 300, c.ptr, true, false)
		return
	}
	if c.length() > 0 {
		_, ok := c.tryRecv()
		c.ok = ok
		s.event(t, 100+uint64(idx), c.ptr, true, true)
		return
	}
	if s.closed[c.ptr] {
		// drain semantics already handled by length()>0 above
		if got, ok := c.tryRecv(); got {
			c.ok = ok
		} else {
			c.setZero()
			c.ok = false
		}
		s.event(t, 100+uint64(idx), c.ptr, true, true)
		return
	}
	ps := s.partners(t, c.ptr, true)
	k := 0
	if len(ps) > 1 {
		k = s.choose(len(ps), ChSelect, false, "partner")
	}
	o, oc := ps[k].t, ps[k].t.cases[ps[k].i]
	c.set(oc.val)
	c.ok = true
	o.resIdx = ps[k].i
	o.partnerDone = true
	s.event(o, 200+uint64(o.resIdx), c.ptr, true, true)
	s.event(t, 100+uint64(idx), c.ptr, true, true)
}

func (t *Thread) chanOp(hasDef bool, cases []*Case) int {
	t.kind, t.hasDef, t.cases, t.cond = opChan, hasDef, cases, nil
	for _, c := range cases {
		if c.ptr != nil {
			S.obj(c.ptr)
		}
	}
	t.park()
	if S.abort {
		return -1
	}
	if t.resIdx == -2 {
		panic("send on closed channel")
	}
	return t.resIdx
}

// Send returns the function that sends on ch; written curried so that the
// value is converted to the element type by ordinary assignability.
func Send[T any](ch chan<- T) func(T) {
	return func(v T) {
		s := S
		if s == nil {
			ch <- v
			return
		}
		if s.abort {
			s.cur.park()
			return
		}
		s.cur.chanOp(false, []*Case{sendCase(ch, v)})
		After("send(done)", *(*unsafe.Pointer)(unsafe.Pointer(&ch)))
	}
}

// Recv2 receives from ch.
func Recv2[T any](ch <-chan T) (T, bool) {
	s := S
	if s == nil {
		v, ok := <-ch
		return v, ok
	}
	var slot T
	if s.abort {
		s.cur.park()
		return slot, false
	}
	c := recvCase(ch, &slot)
	s.cur.chanOp(false, []*Case{c})
	return slot, c.ok
}

// Recv receives from ch.
func Recv[T any](ch <-chan T) T { v, _ := Recv2(ch); return v }

// Close closes ch.
func Close[T any](ch chan<- T) {
	s := S
	if s == nil || s.abort {
		defer func() {
			if s != nil {
				recover()
			}
		}()
		close(ch)
		return
	}
	p := *(*unsafe.Pointer)(unsafe.Pointer(&ch))
	if p == nil {
		panic("close of nil channel")
	}
	// Closing changes the outcome of other threads' operations on the channel
	// (it is not a left mover), so it gets a scheduling point of its own.
	Point("close", p)
	if s.abort {
		return
	}
	if s.closed[p] {
		panic("close of closed channel")
	}
	s.closed[p] = true
	s.event(s.cur, 3, p, false, true)
	defer After("close(done)", p)
	close(ch)
}

// Caser is a select clause handle.
type Caser interface{ base() *Case }

func (c *Case) base() *Case { return c }

// RCase is a typed receive clause.
type RCase[T any] struct {
	*Case
	slot *T
}

// Recv2 returns what the clause received.
func (r *RCase[T]) Recv2() (T, bool) { return *r.slot, r.Case.ok }

// Recv1 returns the received value.
func (r *RCase[T]) Recv1() T { return *r.slot }

// RecvCase builds a receive clause.
func RecvCase[T any](ch <-chan T) *RCase[T] {
	slot := new(T)
	return &RCase[T]{Case: recvCase(ch, slot), slot: slot}
}

// SendCase builds a send clause (curried like Send).
func SendCase[T any](ch chan<- T) func(T) *Case {
	return func(v T) *Case { return sendCase(ch, v) }
}

// Select performs a select statement and returns the index of the chosen
// clause, -1 for default.
func Select(hasDefault bool, clauses ...Caser) int {
	cases := make([]*Case, len(clauses))
	for i, c := range clauses {
		cases[i] = c.base()
	}
	s := S
	if s == nil {
		rc := make([]reflect.SelectCase, 0, len(cases)+1)
		for _, c := range cases {
			if c.send {
				rc = append(rc, reflect.SelectCase{Dir: reflect.SelectSend, Chan: c.rch, Send: c.rval})
			} else {
				rc = append(rc, reflect.SelectCase{Dir: reflect.SelectRecv, Chan: c.rch})
			}
		}
		if hasDefault {
			rc = append(rc, reflect.SelectCase{Dir: reflect.SelectDefault})
		}
		i, v, ok := reflect.Select(rc)
		if hasDefault && i == len(cases) {
			return -1
		}
		if !cases[i].send {
			cases[i].ok = ok
			if v.IsValid() && ok {
				cases[i].set(v.Interface())
			}
		}
		return i
	}
	if s.abort {
		s.cur.park()
		return -1
	}
	return s.cur.chanOp(hasDefault, cases)
}

// Ranger iterates over a channel like "for v := range ch".
type Ranger[T any] struct {
	ch  <-chan T
	val T
}

// Range starts a range loop over ch.
func Range[T any](ch <-chan T) *Ranger[T] { return &Ranger[T]{ch: ch} }

// Next receives the next value; false when the channel is closed and drained.
func (r *Ranger[T]) Next() bool {
	if S != nil && S.abort {
		S.cur.park()
		return false
	}
	v, ok := Recv2(r.ch)
	r.val = v
	return ok
}

// Val returns the value received by the last Next.
func (r *Ranger[T]) Val() T { return r.val }
